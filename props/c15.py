"""C15 — a program means the same however it is delivered and whatever was parsed before.

Ties checked on every run
  lru      cached::LruCache (the store behind every #[cached] site)  vs  Cache/Lru.v           (code = model)
  purity   parse results of a long-lived process vs a fresh process per (api, options, text)   (code vs spec)
  chunks   MinimalInputBackend::read_line on the program as stdin     vs  Modes/Complete.v      (code = model)
           and vs the generator's knowledge of where commands end                               (code vs spec)
  prefixes needs_more (model, fed with the real parser's verdict) on every line-prefix vs
           "not complete but completable" (generator knowledge; bash -n second opinion)         (exploration)
  concat   parser compositionality after a chunk (hypothesis of modes_agree)                    (code = model hyp.)
  modes    the same program as file, -c, source, eval, stdin through the real binary:
           stdout + exit status equal; file mode equal to bash                                  (code vs spec)
"""
import itertools, os, shutil, subprocess, tempfile
from concurrent.futures import ThreadPoolExecutor
from vlib import core

PID = "C15"
ENTRIES = {"c15chunks": ("Modes.Entry", "entry_c15chunks"),
           "c15nm": ("Modes.Entry", "entry_c15nm"),
           "c15lru": ("Modes.Entry", "entry_c15lru"),
           "c15modes": ("Modes.Toy", "entry_c15modes"),
           "c15lex": ("Modes.Lex", "entry_c15lex"),
           "c15lexchunks": ("Modes.Lex", "entry_c15lexchunks")}
TRUSTED = [
    "modelled, not verified: brush-interactive completeness.rs (needs_more_input_locked, ends_with_line_continuation), "
    "minimal/input_backend.rs (read_program_from), interactive_shell.rs (execute_line line offset), interp.rs (Program::execute), "
    "shell/execution.rs (run_string, run_dash_c_command, run_script, source_script), builtins eval.rs/dot.rs; the `cached` crate's LruCache",
    "oracles (Section variables): the parser (verdict class per text, compositionality after a complete chunk), the command executor "
    "(positions additive in the frame's line base), the EXIT path; purity of the memoised functions is tested (fresh vs long-lived process), not proved",
    "completeness decision: proved on the lexical fragment for the scanner model Modes/Lex.v (tied to the real parser by exhaustive "
    "short texts); beyond the fragment explored against the generator's command boundaries and `bash -n`, not proved",
    "/usr/bin/bash 5.2.15 as second opinion for what delivery modes must agree on",
]
ASSUMPTIONS = [
    "programs do not change parse-affecting options (extglob, posix, sh) between their own commands",
    "no top-level `return`/`break`/`continue` (they legitimately differ between delivery modes); `exit` is allowed",
    "the frame pushed by `source`/-c is not observed by the program ($0, BASH_SOURCE, FUNCNAME are not printed)",
    "standard input is read by the shell only (commands do not consume the script's own stdin)",
]

BASH = "/usr/bin/bash"
IMPL_TIMEOUT = 900     # per harness shard; a hanging parse must not stall the run
# known hang of the tokenizer outside this property's scope (reported by C19: here-document with an
# EMPTY quoted tag at end of input, e.g. `<<'' `): never generated, and filtered defensively
HANG_CLASS = __import__("re").compile(r"<<-?\s*(''|\"\")")

KF_EVAL = "KF-C15-eval-lineno-base"


# --------------------------------------------------------------------------------------------
# program generator: a program is a list of segments; a segment is a list of lines forming one
# complete top-level chunk none of whose proper line-prefixes is complete

class G:
    def __init__(self, rng):
        self.rng = rng
        self.n = 0
        self.kinds = []

    def pid(self):
        self.n += 1
        return self.n

    def probe(self, tag="p"):
        return "echo %s%d:$LINENO" % (tag, self.pid())

    def body(self, depth):
        out = []
        for _ in range(self.rng.randrange(1, 3)):
            out += self.command(depth + 1, nested=True)
        return out   # no indentation: here-document terminators must stay in column 0

    def command(self, depth=0, nested=False):
        r = self.rng
        kinds = ["simple", "simple", "assign", "cmt_after", "if", "while", "for", "case", "brace", "subshell",
                 "andor", "pipe", "cont", "squote", "dquote", "heredoc", "heredoc_q", "heredoc_dash", "heredoc2",
                 "heredoc_pipe", "cmdsub", "arith", "dbracket", "func", "eval", "eval2", "bsrun", "bsrun", "bsrun_dq", "bsrun_sq",
                 "cont_empty", "cont_empty", "cont_comment", "cont_heredoc", "ansic", "backquote", "varexp", "varexp_dq", "varassign", "dparen"]
        if depth >= 2:
            kinds = ["simple", "assign", "cont", "squote", "heredoc", "andor", "eval", "cont_empty", "varexp", "ansic"]
        k = r.choice(kinds)
        self.kinds.append(k)
        i = self.pid()
        if k == "simple":
            return [self.probe("s")]
        if k == "assign":
            return ["v%d=$LINENO; echo a%d:$v%d" % (i, i, i)]
        if k == "cmt_after":
            return ["echo c%d:$LINENO # trailing 'comment \\" % i]
        if k == "if":
            head = r.choice([["if true", "then"], ["if true; then"], ["if false", "then", "  echo no%d" % i, "else"],
                             ["if false; then :", "elif true; then"]])
            return head + self.body(depth) + ["fi"]
        if k == "while":
            return ["w%d=0; while [ $w%d -lt 2 ]" % (i, i), "do", "  w%d=$((w%d+1))" % (i, i)] + self.body(depth) + ["done"]
        if k == "for":
            return r.choice([["for x%d in a b" % i, "do"], ["for x%d in a b; do" % i]]) + self.body(depth) + ["done"]
        if k == "case":
            return ["case x%d in" % i, "  a) echo no ;;", "  x%d)" % i] + self.body(depth) + ["  ;;", "esac"]
        if k == "brace":
            return ["{"] + self.body(depth) + ["}"]
        if k == "subshell":
            return ["("] + self.body(depth) + [")"]
        if k == "andor":
            return [r.choice(["true &&", "false ||"]), "  " + self.probe("o")]
        if k == "pipe":
            return [self.probe("i") + " |", "  cat"]
        if k == "cont":
            return ["echo k%d:$LINENO \\" % i, "  more \\", "  end"]
        if k == "squote":
            return ["echo 'q%d:" % i, "line two # $LINENO' $LINENO"]
        if k == "dquote":
            return ['echo "d%d:$LINENO' % i, 'second $LINENO"']
        if k == "heredoc":
            return ["cat <<EOF%d" % i, "h%d:$LINENO" % i, "  text # not a comment 'x", "EOF%d" % i]
        if k == "heredoc_q":
            return ["cat <<'E%d'" % i, "$LINENO raw \\", "E%d" % i]
        if k == "heredoc_dash":
            return ["cat <<-T%d" % i, "\tbody%d $LINENO" % i, "\tT%d" % i]
        if k == "heredoc2":
            return ["cat <<A%d; cat <<B%d" % (i, i), "first $LINENO", "A%d" % i, "second", "B%d" % i]
        if k == "heredoc_pipe":
            return ["cat <<P%d | tr a-z A-Z" % i, "piped%d" % i, "P%d" % i]
        if k == "cmdsub":
            return ["echo u%d:$(" % i, "  echo inner", ")"]
        if k == "arith":
            return ["echo r%d:$((1 +" % i, "  2))"]
        if k == "dbracket":
            return ["if [[ a == a &&", "  b == b ]]; then " + self.probe("y") + "; fi"]
        if k == "cont_empty":
            # a continuation whose next line is empty: the only way a complete command's text ends in two newlines
            return ["printf '%%s\\n' k%d:$LINENO two \\" % i, ""]
        if k == "cont_comment":
            return ["echo k%d:$LINENO \\" % i, "# joined comment 'q"]
        if k == "cont_heredoc":
            return ["cat \\", "<<E%d" % i, "c%d:$LINENO" % i, "E%d" % i]
        if k == "ansic":
            return ["echo $'n%d:" % i, "two' $LINENO"]
        if k == "backquote":
            return ["echo `echo q%d" % i, "echo two` $LINENO"]
        if k == "varexp":
            return ["v%d=${UNSET_X:-a%d" % (i, i), "b}; echo \"$v%d\" $LINENO" % i]
        if k == "varexp_dq":
            return ['echo "${UNSET_Y:-q%d' % i, 'r}" $LINENO']
        if k == "varassign":
            return [": ${g%d:=hello" % i, "world}; echo \"$g%d\" $LINENO" % i]
        if k == "dparen":
            return ["(( z%d = 1 +" % i, "  2 )); echo z%d:$z%d:$LINENO" % (i, i)]
        if k == "bsrun":
            # a line ending in a run of 1..5 backslashes: an odd run ends in a line continuation
            n = r.randrange(1, 6)
            return ["echo C%d:dir" % i + "\\" * n, "file%d $LINENO" % i] if n % 2 else ["echo C%d:dir" % i + "\\" * n]
        if k == "bsrun_dq":
            return ['echo "D%d:' % i + "\\" * r.randrange(1, 6), 'x%d" $LINENO' % i]
        if k == "bsrun_sq":
            return ["echo 'S%d:" % i + "\\" * r.randrange(1, 6), "y%d' $LINENO" % i]
        if k == "eval":
            return ["eval 'echo e%d:$LINENO'" % i]
        if k == "eval2":
            return ["eval 'echo e%d:$LINENO" % i, "echo e%d:$LINENO'" % self.pid()]
        if k == "func":
            head = r.choice(["f%d() {" % i, "function f%d {" % i])
            return [head] + self.body(depth) + ["}"] if nested else [head] + self.body(depth) + ["}"]
        raise AssertionError(k)

    def program(self):
        r = self.rng
        segs = []
        if r.random() < 0.3:
            segs.append(["trap 'echo bye:$?' EXIT"])
        funcs = []
        for _ in range(r.randrange(2, 7)):
            x = r.random()
            if x < 0.12:
                segs.append([""])
                self.kinds.append("blank")
            elif x < 0.22:
                segs.append([r.choice(["# a comment 'with quote \\", "#!/bin/sh", "  # indented $("])])
                self.kinds.append("comment")
            elif x < 0.27:
                # an extglob pattern spanning lines (bash needs the option set on an earlier line)
                segs.append(["shopt -s extglob"])
                segs.append(["echo @(zz%d|" % self.pid(), "yy) $LINENO"])
                self.kinds.append("extglob")
            else:
                c = self.command(0)
                segs.append(c)
                if c[0].endswith("{") and (c[0].startswith("f") or c[0].startswith("function")):
                    name = c[0].replace("function ", "").replace("() {", "").replace(" {", "")
                    segs.append([name])
            if r.random() < 0.5:
                segs.append([self.probe("t")])        # $LINENO right after the construct
        if r.random() < 0.6:
            # recorded function source lines and a last probe
            n = self.pid()
            segs += [["report%d() {" % n, "  echo in-function%d:$LINENO" % n, "}"], ["report%d" % n]]
        segs.append([self.probe("end")])
        x = r.random()
        if x < 0.15:
            segs.append(["exit %d" % r.choice([0, 3, 7])])
            if r.random() < 0.5:
                segs.append(["echo not-reached"])
        elif x < 0.3:
            segs.append(["(exit %d)" % r.choice([2, 5])])
        return segs


def prog_text(segs, strip=False):
    t = "".join(l + "\n" for s in segs for l in s)
    return t[:-1] if strip and t.endswith("\n") else t


def prog_chunks(segs, strip=False):
    ch = ["".join(l + "\n" for l in s) for s in segs]
    if strip and ch and ch[-1].endswith("\n"):
        ch[-1] = ch[-1][:-1]
    return ch


FIXED_PROGRAMS = [
    # one multi-line construct per kind of unterminated token the tokenizer distinguishes, continuations followed by an
    # empty line / a comment line / a here-document, and $LINENO after every construct and inside a function
    [["echo start:$LINENO"], ["printf '%s\\n' one two \\", ""], ["echo after:$LINENO"], ["echo k \\", "# joined"], ["echo a1:$LINENO"],
     ["cat \\", "<<E", "h:$LINENO", "E"], ["echo a2:$LINENO"], ["echo $'n:", "two' $LINENO"], ["echo `echo q", "echo two` $LINENO"],
     ["v=${UNSET_X:-a", "b}; echo \"$v\" $LINENO"], ['echo "${UNSET_Y:-q', 'r}" $LINENO'], [": ${g:=hello", "world}"], ["echo \"$g\" $LINENO"],
     ["echo u:$(", " echo inner", ") $LINENO"], ["echo r:$((1 +", " 2)) $LINENO"], ["shopt -s extglob"], ["echo @(zz|", "yy) $LINENO"],
     ["(( z = 1 +", "  2 )); echo z:$z:$LINENO"], ["echo 'sq", "x' $LINENO"], ['echo "dq', 'x" $LINENO'],
     ["report() {", "  echo in-function:$LINENO", "}"], ["report"], ["echo end:$LINENO"]],
    [["echo a:$LINENO"], ["if true", "then", "  echo b:$LINENO", "fi"], [""], ["# comment"],
     ["cat <<E", "body $LINENO", "E"], ["echo c \\", "  $LINENO"], ["f() {", "  echo f:$LINENO", "}"], ["f"], ["echo d:$LINENO"]],
    [["trap 'echo bye:$?' EXIT"], ["echo one"], ["exit 3"], ["echo not-reached"]],
    [["cat <<A; cat <<B", "1", "A", "2", "B"], ["echo after:$LINENO"]],
    [["echo 'multi", "line' $LINENO"], ["true &&", "  echo t:$LINENO"]],
    [["x=1 \\", "echo x:$LINENO"]],   # a continuation joins an assignment line with the next command line
    # lines ending in runs of 1..5 backslashes: odd runs continue, even runs do not
    [["echo C1:dir\\", "file1"], ["echo C2:dir\\\\"], ["echo C3:dir\\\\\\", "file3"], ["echo C4:dir\\\\\\\\"],
     ["echo C5:dir\\\\\\\\\\", "file5"], ['echo "D3:\\\\\\', 'x"'], ["echo 'S3:\\\\\\", "y'"], ["echo end:$LINENO"]],
]


# --------------------------------------------------------------------------------------------
# process-level delivery

def _run(argv, timeout=8, input=None, stdin=None, **kw):
    """subprocess.run with the child in its own process group; on timeout the whole group is killed"""
    import signal
    p = subprocess.Popen(argv, stdin=(subprocess.PIPE if input is not None else (stdin or subprocess.DEVNULL)),
                         stdout=subprocess.PIPE, stderr=subprocess.PIPE, start_new_session=True, **kw)
    try:
        out, err = p.communicate(input=input, timeout=timeout)
    except subprocess.TimeoutExpired:
        try:
            os.killpg(p.pid, signal.SIGKILL)
        except OSError:
            pass
        p.communicate()
        raise
    finally:
        # nothing of the child's group may outlive the case (background jobs of a generated program)
        try:
            os.killpg(p.pid, signal.SIGKILL)
        except OSError:
            pass

    class R:
        pass
    r = R()
    r.returncode, r.stdout, r.stderr = p.returncode, out, err
    return r


def _env(home):
    return {"HOME": home, "PATH": "/usr/bin:/bin", "LC_ALL": "C", "TERM": "dumb"}


def run_modes(shell_argv, text, workdir, tag):
    """-> {mode: (status, stdout, stderr)} for file, c, source, eval, stdin, stdin_s (-s)"""
    path = os.path.join(workdir, "p%s.sh" % tag)
    with open(path, "w") as f:
        f.write(text)
    env = _env(workdir)
    res = {}

    def go(mode, args, stdin=None):
        try:
            p = _run(shell_argv + args, cwd=workdir, env=env, stdin=stdin, timeout=8)
            res[mode] = (p.returncode, p.stdout.decode("utf-8", "replace"), p.stderr.decode("utf-8", "replace"))
        except subprocess.TimeoutExpired:
            res[mode] = ("timeout", "", "")
    go("file", [path])
    go("c", ["-c", text])
    go("source", ["-c", ". " + path])
    go("eval", ["-c", 'eval "$1"', "sh", text])
    with open(path, "rb") as f:
        go("stdin", [], stdin=f)
    with open(path, "rb") as f:
        go("stdin_s", ["-s"], stdin=f)
    os.remove(path)
    return res


def brush_argv(ctx):
    return [ctx.vbrush, "--norc", "--noprofile", "--no-config"]


BASH_ARGV = [BASH, "--norc", "--noprofile"]


def eval_at_line(shell_argv, text, lead, workdir, tag):
    """the program eval'ed from line lead+1 of a wrapper script"""
    path = os.path.join(workdir, "w%s.sh" % tag)
    with open(path, "w") as f:
        f.write(":\n" * lead + 'eval "$1"\n')
    try:
        p = _run(shell_argv + [path, text], cwd=workdir, env=_env(workdir), timeout=8)
        r = (p.returncode, p.stdout.decode("utf-8", "replace"))
    except subprocess.TimeoutExpired:
        r = ("timeout", "")
    os.remove(path)
    return r


# --------------------------------------------------------------------------------------------
# helpers

def lines_of(text):
    """split like BufRead::read_line: every line keeps its newline"""
    out = text.split("\n")
    ls = [l + "\n" for l in out[:-1]]
    if out[-1]:
        ls.append(out[-1])
    return ls


def truncation(t):
    return t[:-1] if t.endswith("\\\n") else None


def bash_n(text, workdir):
    p = _run([BASH, "--norc", "--noprofile", "-n"], input=text.encode(), cwd=workdir, env=_env(workdir), timeout=8)
    err = p.stderr.decode("utf-8", "replace")
    if p.returncode == 0:
        return "complete"
    if "unexpected end of file" in err or "unexpected EOF" in err:
        return "incomplete"
    return "bad"


def lineno_tokens(s):
    import re
    return re.findall(r"\b([a-z]+\d+):(\d+)", s)


# --------------------------------------------------------------------------------------------

def gen_programs(ctx, n):
    """-> list of (segments, construct kinds, final newline stripped?)"""
    progs = [(p, ["fixed"], False) for p in FIXED_PROGRAMS] + [(FIXED_PROGRAMS[0], ["fixed"], True)]
    for _ in range(n):
        g = G(ctx.rng)
        segs = g.program()
        if sum(len(s) for s in segs) > 40 or HANG_CLASS.search(prog_text(segs)):
            continue
        # one program in six ends without a newline (not after a blank line: that would be a different program)
        strip = ctx.rng.random() < 0.17 and segs[-1] != [""]
        progs.append((segs, g.kinds, strip))
    return progs


def check_chunks_and_prefixes(ctx, progs, workdir, res):
    """code chunks vs model chunks vs generator segments; model needs_more on all prefixes vs oracle"""
    opts = "e"
    texts = [prog_text(s, st) for s, _, st in progs]
    impl_chunks = ctx.impl("c15chunks", [[opts, t] for t in texts], timeout=IMPL_TIMEOUT)
    # verdict classes of all segments lines[s:k] (+ truncations) and of all prefixes
    want = {}
    per_prog = []
    for t in texts:
        ls = lines_of(t)
        segs = set()
        for s in range(len(ls)):
            for k in range(s + 1, len(ls) + 1):
                segs.add("".join(ls[s:k]))
        more = set()
        for x in segs:
            tr = truncation(x)
            if tr is not None:
                more.add(tr)
        allx = sorted(segs | more)
        per_prog.append(allx)
        for x in allx:
            want[x] = None
    keys = sorted(want)
    cls = ctx.impl("c15cls", [[opts, x] for x in keys], timeout=IMPL_TIMEOUT)
    for x, c in zip(keys, cls):
        want[x] = core.dec_line(c)[0] if not c.startswith(("PANIC", "DIED", "TIMEOUT")) else c
    res["evaluations"] += len(keys)
    for c in want.values():
        res["dist_class"][c] = res["dist_class"].get(c, 0) + 1
    # every kind of unterminated token that the tokenizer can raise must be passed through by some generated program
    import re as _re
    tsrc = open(os.path.join(core.REPO, "brush-parser/src/tokenizer.rs"), encoding="utf-8").read()
    em = _re.search(r"pub enum TokenizerError \{(.*?)\n\}", tsrc, flags=_re.S)
    kinds_all = _re.findall(r"^\s{4}(Unterminated\w+)", em.group(1), flags=_re.M) if em else []
    raised = [v for v in kinds_all if _re.search(r"TokenizerError::%s\b" % v, tsrc)]
    missing = [v for v in raised if ("tok:" + v) not in res["dist_class"]]
    res["dist_modes"]["unterminated_kinds_exercised"] = {v: res["dist_class"].get("tok:" + v, 0) for v in raised}
    res["dist_modes"]["unterminated_kinds_never_constructed_by_the_tokenizer"] = [v for v in kinds_all if v not in raised]
    if missing or not raised:
        raise core.CheckBroken("the program generators no longer pass through the unterminated-token kind(s) %s" % (missing or "none found"))
    # model chunks
    mcases = []
    for t, allx in zip(texts, per_prog):
        ls = lines_of(t)
        f = [str(len(ls))] + ls + [str(len(allx))]
        for x in allx:
            f += [x, want[x]]
        mcases.append(f)
    model = ctx.model("c15chunks", mcases)
    res["model_cases"]["c15chunks"] = mcases
    res["model_out"]["c15chunks"] = model
    nm_cases, nm_meta = [], []
    for idx, ((segs, kinds, strip), t, il, ml) in enumerate(zip(progs, texts, impl_chunks, model)):
        code = core.dec_line(il) if not il.startswith(("PANIC", "DIED", "TIMEOUT")) else [il]
        mf = core.dec_line(ml)
        mchunks = [mf[i + 1] for i in range(0, len(mf) - 2, 3)] if len(mf) % 3 == 0 else ["?" + ml]
        moffs = [mf[i] for i in range(0, len(mf) - 2, 3)] if len(mf) % 3 == 0 else []
        expect = prog_chunks(segs, strip)
        res["evaluations"] += 1
        if code != mchunks:
            res["model_mismatches"].append({"what": "chunks handed over by MinimalInputBackend differ from the model",
                                            "program": t, "code": code, "model": mchunks})
        # model line offsets = number of lines before the chunk
        before = 0
        for ch, off in zip(mchunks, moffs):
            if str(before) != off:
                res["model_mismatches"].append({"what": "model line offset differs from the lines before the chunk",
                                                "program": t, "chunk": ch, "model_offset": off, "lines_before": before})
                break
            before += ch.count("\n") + (0 if ch.endswith("\n") else 1)
        if code != expect:
            # second opinion: where does bash see complete prefixes?
            why = "standard input was cut into %r, the commands are %r" % (code, expect)
            b = []
            acc = ""
            for l in lines_of(t):
                acc += l
                if bash_n(acc, workdir) == "complete":
                    b.append(acc)
                    acc = ""
            if acc:
                b.append(acc)
            if b == expect:
                res["spec_violations"].append({"input": {"program": t, "mode": "stdin chunks"}, "why": why, "bash_chunks": b})
            else:
                res["spec_vs_bash"]["generator_boundaries_disagree_with_bash"] = res["spec_vs_bash"].get("generator_boundaries_disagree_with_bash", 0) + 1
                res["notes"].append("generator boundaries %r vs bash -n %r" % (expect, b))
        # prefixes
        ls = lines_of(t)
        bounds = set()
        n = 0
        for s in segs:
            n += len(s)
            bounds.add(n)
        for k in range(1, len(ls) + 1):
            p = "".join(ls[:k])
            tr = truncation(p)
            nm_cases.append([p, want[p], want[tr] if tr is not None else "ok"])
            nm_meta.append((idx, k, k in bounds, p))
    nm = ctx.model("c15nm", nm_cases)
    res["model_cases"]["c15nm"] = nm_cases
    res["model_out"]["c15nm"] = nm
    res["evaluations"] += len(nm_cases)
    bad = []
    for (idx, k, at_bound, p), line in zip(nm_meta, nm):
        v = core.dec_line(line)
        needs = v == ["1"]
        res["dist_prefix"]["needs_more" if needs else "complete"] = res["dist_prefix"].get("needs_more" if needs else "complete", 0) + 1
        if needs == at_bound:
            bad.append((idx, k, at_bound, p, needs))
    for idx, k, at_bound, p, needs in bad[:40]:
        b = bash_n(p, workdir)
        agree_bash = (b == "incomplete") == needs
        if agree_bash:
            res["spec_vs_bash"]["prefix_oracle_disagrees_with_bash"] = res["spec_vs_bash"].get("prefix_oracle_disagrees_with_bash", 0) + 1
            res["notes"].append("prefix %r: decision %s agrees with bash -n (%s) but not with the generator boundary" % (p, needs, b))
        else:
            res["spec_violations"].append({"input": {"prefix": p, "of_program": texts[idx]},
                                           "why": "needs_more_input says %s for a prefix that %s (bash -n: %s); parser verdict %s" % (
                                               "more input needed" if needs else "complete",
                                               "ends a command" if at_bound else "stops inside a command", b, want[p])})
    if not ctx.quick:
        # thorough: every prefix against bash -n
        def one(m):
            return bash_n(m[3], workdir)
        with ThreadPoolExecutor(8) as ex:
            bs = list(ex.map(one, nm_meta))
        for (idx, k, at_bound, p), line, b in zip(nm_meta, nm, bs):
            needs = core.dec_line(line) == ["1"]
            res["spec_vs_bash"]["prefixes_vs_bash_n"] = res["spec_vs_bash"].get("prefixes_vs_bash_n", 0) + 1
            if (b == "incomplete") != needs and needs != at_bound:
                pass  # already reported above
            elif (b == "incomplete") != needs:
                res["spec_vs_bash"]["bash_n_differs_but_generator_agrees"] = res["spec_vs_bash"].get("bash_n_differs_but_generator_agrees", 0) + 1
    return texts, want


def check_concat(ctx, progs, res):
    cases, meta = [], []
    for segs, _, strip in progs:
        chunks = prog_chunks(segs, strip)
        for k in range(1, len(chunks)):
            t1, t2 = chunks[k - 1], "".join(chunks[k:])
            cases.append(["e", t1, t2])
            meta.append((t1, t2))
    cases.append(["e", "", "echo x\n"])
    meta.append(("", "echo x\n"))
    out = ctx.impl("c15concat", cases, timeout=IMPL_TIMEOUT)
    res["evaluations"] += len(cases)
    for (t1, t2), l in zip(meta, out):
        f = core.dec_line(l) if not l.startswith(("PANIC", "DIED", "TIMEOUT")) else [l]
        if f[:1] != ["eq"]:
            res["model_mismatches"].append({"what": "parser is not compositional after a complete chunk (hypothesis parse_concat of modes_agree)",
                                            "t1": t1, "t2": t2, "code": f[:4]})


def check_modes(ctx, progs, workdir, res):
    def one(i):
        segs, kinds, strip = progs[i]
        t = prog_text(segs, strip)
        br = run_modes(brush_argv(ctx), t, workdir, "b%d" % i)
        ba = run_modes(BASH_ARGV, t, workdir, "a%d" % i)
        return i, t, br, ba
    with ThreadPoolExecutor(8) as ex:
        results = list(ex.map(one, range(len(progs))))
    for i, t, br, ba in results:
        res["evaluations"] += 6
        ref = br["file"]
        diffs = [m for m in ("c", "source", "eval", "stdin", "stdin_s") if br[m][:2] != ref[:2]]
        bash_diffs = [m for m in ("c", "source", "eval", "stdin", "stdin_s") if ba[m][:2] != ba["file"][:2]]
        if ref[:2] != ba["file"][:2]:
            # brush's file mode differs from bash (e.g. bash numbers a simple command that contains a
            # multi-line quoted word by its last line): a bash-parity matter of the interpreter, not of
            # delivery; counted, not reported here
            res["spec_vs_bash"]["file_mode_differs_from_bash"] = res["spec_vs_bash"].get("file_mode_differs_from_bash", 0) + 1
        if bash_diffs:
            res["spec_vs_bash"]["bash_modes_disagree"] = res["spec_vs_bash"].get("bash_modes_disagree", 0) + 1
        for m in diffs:
            if m in bash_diffs and ba[m][:2] == br[m][:2]:
                res["spec_vs_bash"]["mode_difference_shared_with_bash"] = res["spec_vs_bash"].get("mode_difference_shared_with_bash", 0) + 1
                continue
            v = {"input": {"program": t, "mode": m},
                 "why": "delivery as %s gives %r but as a script file %r (bash: %r vs %r)" % (
                     m, br[m][:2], ref[:2], ba[m][:2], ba["file"][:2]),
                 "stderr": br[m][2][:300]}
            if only_eval_probes_differ(br[m], ref) and not bash_diffs:
                v["known"] = KF_EVAL
            res["spec_violations"].append(v)
        res["file_out"][t] = ((br["file"][0], br["file"][1]), (ba["file"][0], ba["file"][1]))
        toks = lineno_tokens(ref[1])
        if toks:
            res["nontrivial"].add(t)
        res["dist_modes"]["programs"] = res["dist_modes"].get("programs", 0) + 1
        res["dist_modes"]["lineno_probes_observed"] = res["dist_modes"].get("lineno_probes_observed", 0) + len(toks)


def check_eval_lines(ctx, progs, workdir, res):
    """eval of the program from line L > 1 of a wrapper script.  bash's rule: every $LINENO of the
    eval'ed text grows by L-1 with respect to the same text run as a script, nothing else changes.
    The same is demanded of brush, relative to its own script-file run."""
    sample = progs[: (16 if ctx.quick else 120)]

    def one(i):
        t = prog_text(sample[i][0], sample[i][2])
        lead = 1 + i % 3
        return t, lead, eval_at_line(brush_argv(ctx), t, lead, workdir, "e%d" % i), eval_at_line(BASH_ARGV, t, lead, workdir, "f%d" % i)
    with ThreadPoolExecutor(8) as ex:
        out = list(ex.map(one, range(len(sample))))
    for t, lead, br, ba in out:
        res["evaluations"] += 1
        if t not in res["file_out"]:
            continue
        brf, baf = res["file_out"][t]
        cls = eval_shift_class(br, brf, ba, baf)
        if cls == "ok":
            continue
        if cls == "bash-irregular":
            res["spec_vs_bash"]["eval_shift_irregular_in_bash"] = res["spec_vs_bash"].get("eval_shift_irregular_in_bash", 0) + 1
            continue
        v = {"input": {"program": t, "mode": "eval at wrapper line %d" % (lead + 1)},
             "why": "$LINENO inside eval'ed text, relative to the same text as a script: brush shifts by %s, bash by %s" % (
                 cls[1], cls[2])}
        if cls[0] == "known":
            v["known"] = KF_EVAL
        res["spec_violations"].append(v)


def only_eval_probes_differ(a, b):
    """class of KF-C15-eval-lineno-base for nested `eval`: statuses equal and the outputs equal once
    the numbers printed by probes inside eval'ed text (tags e<N>) are masked"""
    import re
    mask = lambda s: re.sub(r"\be(\d+):\d+", r"e\1:N", s)
    return a[0] == b[0] and mask(a[1]) == mask(b[1]) and a[1] != b[1]


def nums(s):
    import re
    return [int(x) for x in re.findall(r"\d+", s)], re.sub(r"\d+", "N", s)


def eval_shift_class(br, brf, ba, baf):
    """br/ba: (status, stdout) of brush/bash running the text through eval on wrapper line L;
    brf/baf: the same text as a script file.  -> "ok" | "bash-irregular" | ("known"|"new", brush shifts, bash shifts)
    Class of KF-C15-eval-lineno-base ("known"): statuses and the outputs with numbers masked are equal
    everywhere, bash shifts some numbers (all by the same amount), brush shifts none."""
    (bn, bmask), (bfn, bfmask) = nums(br[1]), nums(brf[1])
    (an, amask), (afn, afmask) = nums(ba[1]), nums(baf[1])
    if ba[0] != baf[0] or amask != afmask or len(an) != len(afn):
        return "bash-irregular"
    d_bash = [x - y for x, y in zip(an, afn)]
    if br[0] != brf[0] or bmask != bfmask or len(bn) != len(bfn) or len(bn) != len(an):
        return ("new", "output/status changed", sorted(set(d_bash)))
    d_brush = [x - y for x, y in zip(bn, bfn)]
    if d_brush == d_bash:
        return "ok"
    if all(d == 0 for d in d_brush) and len(set(d for d in d_bash if d != 0)) == 1:
        return ("known", sorted(set(d_brush)), sorted(set(d_bash)))
    return ("new", sorted(set(d_brush)), sorted(set(d_bash)))



# --------------------------------------------------------------------------------------------
# the front-end model on a small command language vs the real binary (entry c15modes)

def toy_program(rng):
    """-> list of (lines, cmds) ; cmds = (kind, a, b, line relative to the segment)"""
    segs = []
    n = [0]

    def i():
        n[0] += 1
        return n[0]
    if rng.random() < 0.5:
        segs.append((["trap 'echo bye:$?' EXIT"], [("trap", "", "", 0)]))
    for _ in range(rng.randrange(1, 8)):
        k = rng.choice("PPKHIABCSAEJ")
        j = i()
        if k == "P":
            segs.append((["echo p%d:$LINENO" % j], [("print", "p%d" % j, "", 1)]))
        elif k == "K":
            segs.append((["echo k%d:$LINENO \\" % j, "  more"], [("print", "k%d" % j, " more", 1)]))
        elif k == "H":
            segs.append((["cat <<E%d" % j, "h%d:$LINENO" % j, "E%d" % j], [("print", "h%d" % j, "", 1)]))
        elif k == "I":
            segs.append((["if true", "then", "  echo i%d:$LINENO" % j, "fi"], [("print", "i%d" % j, "", 3)]))
        elif k == "A":
            segs.append((["true &&", "  echo a%d:$LINENO" % j], [("print", "a%d" % j, "", 2)]))
        elif k == "E":
            segs.append((["eval 'echo e%d:$LINENO'" % j], [("eval", "e%d" % j, "", 1)]))
        elif k == "J":
            segs.append((["if true", "then", "  eval 'echo e%d:$LINENO'" % j, "fi"], [("eval", "e%d" % j, "", 3)]))
        elif k == "B":
            segs.append(([""], []))
        elif k == "C":
            segs.append((["# comment %d 'q" % j], []))
        elif k == "S":
            sc = rng.choice([1, 2, 5, 126, 127, 255, 256, 257, 300, 511, 65536 + 3])
            segs.append((["(exit %d)" % sc], [("status", str(sc), "", 0)]))
    x = rng.random()
    if x < 0.3:
        code = rng.choice([0, 4, 9, 255, 256, 300, 1000, -1, -2, -256])
        segs.append((["exit %d" % code], [("exit", str(code), "", 0)]))
        if rng.random() < 0.6:
            segs.append((["echo p99:$LINENO"], [("print", "p99", "", 1)]))
    return segs


def check_toy_modes(ctx, workdir, res, want_classes):
    rng = ctx.rng
    progs = [toy_program(rng) for _ in range(70 if ctx.quick else 600)]
    texts = ["".join(l + "\n" for ls, _ in p for l in ls) for p in progs]
    # verdict classes for the segments of these programs
    need = {}
    per = []
    for t in texts:
        ls = lines_of(t)
        xs = set()
        for a in range(len(ls)):
            for b in range(a + 1, len(ls) + 1):
                x = "".join(ls[a:b])
                xs.add(x)
                tr = truncation(x)
                if tr is not None:
                    xs.add(tr)
        per.append(sorted(xs))
        for x in xs:
            if x not in want_classes:
                need[x] = None
    keys = sorted(need)
    if keys:
        cls = ctx.impl("c15cls", [["e", x] for x in keys], timeout=IMPL_TIMEOUT)
        for x, c in zip(keys, cls):
            want_classes[x] = core.dec_line(c)[0] if not c.startswith(("PANIC", "DIED", "TIMEOUT")) else c
    cases, meta = [], []
    for p, t, xs in zip(progs, texts, per):
        ls = lines_of(t)
        ctab = []
        for x in xs:
            ctab += [x, want_classes[x]]
        # parse table: the whole text (absolute lines) and every segment (relative lines)
        ptab = {}
        whole, line0 = [], 0
        for seg_lines, cmds in p:
            seg_text = "".join(l + "\n" for l in seg_lines)
            ptab[seg_text] = [(k, a, b, ln) for (k, a, b, ln) in cmds]
            whole += [(k, a, b, ln + line0 if k in ("print", "eval") else ln) for (k, a, b, ln) in cmds]
            line0 += len(seg_lines)
        ptab[t] = whole
        pf = [str(len(ptab))]
        for x, cmds in ptab.items():
            pf += [x, str(len(cmds))]
            for (k, a, b, ln) in cmds:
                pf += [k, a, b, str(ln)]
        for rule in ("code", "legacy"):
            for mode in ("file", "c", "source", "eval", "stdin"):
                cases.append([rule, mode, str(len(ls))] + ls + [str(len(xs))] + ctab + pf)
                meta.append((t, mode, rule))
    model = ctx.model("c15modes", cases)
    res["model_cases"]["c15modes"] = cases
    res["model_out"]["c15modes"] = model
    by = {}
    for (t, mode, rule), ml in zip(meta, model):
        by[(t, mode, rule)] = core.dec_line(ml)

    def one(i):
        return run_modes(brush_argv(ctx), texts[i], workdir, "t%d" % i), run_modes(BASH_ARGV, texts[i], workdir, "u%d" % i)
    with ThreadPoolExecutor(8) as ex:
        real = list(ex.map(one, range(len(texts))))

    def shape(r):
        out = r[1].split("\n")
        if out and out[-1] == "":
            out = out[:-1]
        return out + ["|", str(r[0])]
    reproduced = 0
    for t, (rb, ra) in zip(texts, real):
        for mode in ("file", "c", "source", "eval", "stdin"):
            res["evaluations"] += 1
            code, bash = shape(rb[mode]), shape(ra[mode])
            m_code, m_legacy = by[(t, mode, "code")], by[(t, mode, "legacy")]
            if bash != m_code:
                # the model of the code is also the specification (Modes.eval_lineno); it must be bash's behaviour
                raise core.CheckBroken("toy specification disagrees with bash in mode %s on %r: spec %r bash %r" % (mode, t, m_code, bash))
            if code != m_code:
                res["model_mismatches"].append({"what": "front-end model and the real binary differ", "mode": mode, "program": t,
                                                "code": code, "model": m_code, "stderr": rb[mode][2][:200]})
                v = {"input": {"program": t, "mode": mode},
                     "why": "output/status/$LINENO %r, specified (and bash) %r" % (code, m_code)}
                if code == m_legacy:
                    # the repaired defect is back: tagged with its (fixed) finding id, which suppresses nothing
                    reproduced += 1
                    v["known"] = KF_EVAL
                    v["why"] = "KF-C15-eval-lineno-base (fixed by e4871cd) is back: $LINENO inside eval %r, specified (and bash) %r" % (code, m_code)
                res["spec_violations"].append(v)
            if mode == "stdin" and any(":" in x for x in code):
                res["nontrivial"].add("toy:" + t)
    res["dist_modes"]["toy_eval_finding_reproduced"] = reproduced
    res["dist_modes"]["toy_programs"] = len(texts)



# --------------------------------------------------------------------------------------------
# the lexical fragment (quotes, escapes, continuations, comments): Modes/Lex.v vs the real parser

LEX_ALPHABET = ["a", "b", " ", "\n", "'", '"', "\\", "#"]


def check_lex(ctx, workdir, res):
    rng = ctx.rng
    maxlen = 4 if ctx.quick else 6
    texts = [""]
    for n in range(1, maxlen + 1):
        texts += ["".join(x) for x in itertools.product(LEX_ALPHABET, repeat=n)]
    exhaustive = len(texts)
    for _ in range(2500 if ctx.quick else 30000):
        n = rng.randrange(maxlen + 1, 24)
        texts.append("".join(rng.choice(LEX_ALPHABET + ["\t", "\\\n", "# c\n", "'a b'", '"a\\"b"']) for _ in range(n)))
    texts = sorted(set(texts))
    code = ctx.impl("c15cls", [["e", t] for t in texts], timeout=IMPL_TIMEOUT)
    model = ctx.model("c15lex", [[t] for t in texts])
    res["model_cases"]["c15lex"] = [[t] for t in texts]
    res["model_out"]["c15lex"] = model
    res["evaluations"] += len(texts)
    dist = {}
    needs = {}
    for t, cl, ml in zip(texts, code, model):
        c = core.dec_line(cl)[0] if not cl.startswith(("PANIC", "DIED", "TIMEOUT")) else cl
        m = core.dec_line(ml)
        dist[c] = dist.get(c, 0) + 1
        needs[t] = m[1:2] == ["1"]
        if m[:1] != [c]:
            res["model_mismatches"].append({"what": "verdict of the real parser differs from the scanner model on the lexical fragment",
                                            "text": t, "code": c, "model": m})
    res["dist_lex"] = {"texts": len(texts), "exhaustive_up_to_length": maxlen, "exhaustive": exhaustive, "verdicts": dist,
                       "needs_more": sum(1 for v in needs.values() if v)}
    # the real front-end on multi-line fragment texts vs the model's chunking with the fragment's decision
    multi = [t for t in texts if t.count("\n") >= 2 and len(t) >= 5]
    multi = rng.sample(multi, min(len(multi), 1500 if ctx.quick else 12000))
    # lines ending in runs of 1..5 backslashes outside quotes, inside double and single quotes, in a comment,
    # with the chunks they must be cut into (an odd run outside quotes / inside double quotes continues the
    # line; quotes stay open over the newline; a comment ends at the newline whatever it ends in)
    designed = {}
    for k in range(1, 6):
        bs = "\\" * k
        for pre in ("a", "a b", "ab ", ""):
            first, second = pre + "a" + bs + "\n", "b\n"
            designed[first + second] = [first + second] if k % 2 else [first, second]
        designed['"a' + bs + '\nb"\n'] = ['"a' + bs + '\nb"\n']
        designed["'a" + bs + "\nb'\n"] = ["'a" + bs + "\nb'\n"]
        designed["a # b" + bs + "\nb\n"] = ["a # b" + bs + "\n", "b\n"]
        designed["a" + bs + "\n" + "b" + bs + "\n" + "a\n"] = (["a" + bs + "\n" + "b" + bs + "\n" + "a\n"] if k % 2
                                                             else ["a" + bs + "\n", "b" + bs + "\n", "a\n"])
    multi = sorted(designed) + [t for t in multi if t not in designed]
    impl_chunks = ctx.impl("c15chunks", [["e", t] for t in multi], timeout=IMPL_TIMEOUT)
    mcases = [[str(len(lines_of(t)))] + lines_of(t) for t in multi]
    mchunks = ctx.model("c15lexchunks", mcases)
    res["model_cases"]["c15lexchunks"] = mcases
    res["model_out"]["c15lexchunks"] = mchunks
    res["evaluations"] += len(multi)
    for t, il, ml in zip(multi, impl_chunks, mchunks):
        c = core.dec_line(il) if not il.startswith(("PANIC", "DIED", "TIMEOUT")) else [il]
        if c != core.dec_line(ml):
            res["model_mismatches"].append({"what": "chunks of the real front-end differ from the fragment model",
                                            "text": t, "code": c, "model": core.dec_line(ml)})
        if t in designed and c != designed[t]:
            res["spec_violations"].append({"input": {"program": t, "mode": "stdin chunks"},
                                           "why": "a line ending in a run of backslashes: standard input was cut into %r, "
                                                  "the complete commands are %r" % (c, designed[t])})
        if len(c) > 1:
            res["nontrivial"].add("lex:" + t)
    res["dist_lex"]["chunked_texts"] = len(multi)
    # validation of the grammar (through the proved decision) against bash -n, on texts that do not
    # end in a continuation or a lone backslash (bash -n accepts both at end of file)
    cand = [t for t in texts if not t.endswith("\\\n") and not t.endswith("\\") and len(t) >= 3]
    cand = rng.sample(cand, min(len(cand), 250 if ctx.quick else 4000))
    with ThreadPoolExecutor(8) as ex:
        bs = list(ex.map(lambda t: bash_n(t, workdir), cand))
    bad = 0
    for t, b in zip(cand, bs):
        res["evaluations"] += 1
        if (b == "incomplete") != needs[t]:
            bad += 1
            res["notes"].append("lexical grammar vs bash -n: %r decision %s bash %s" % (t, needs[t], b))
    res["spec_vs_bash"]["lex_grammar_vs_bash_n"] = len(cand)
    res["spec_vs_bash"]["lex_grammar_disagrees_with_bash_n"] = bad


# --------------------------------------------------------------------------------------------
# delivery contexts (differential only: brush vs bash per mode, and brush's modes among themselves):
# $0 and positional parameters, exit-status propagation (codes >= 256, negative), set -e / set -u,
# EXIT and ERR traps at the end of each front-end, aliases defined earlier in the same delivery,
# extglob toggled on a previous line vs on the same line, top-level return, $-, $_

KF_ALIAS = "KF-C15-alias-same-line"
KF_EXTGLOB = "KF-C15-extglob-parse-option"
KF_NOUNSET = "KF-C15-nounset-status-by-mode"
CTX_MODES = ("file", "c", "source", "eval", "stdin_s", "stdin")


def context_programs(rng):
    code = rng.choice([0, 1, 2, 7, 126, 127, 128, 255, 256, 257, 300, 511, 1000, 65539, -1, -2, -255, -256])
    w = rng.choice(["x", "x y", "", "*", "a'b", "-n"])
    return {
        "args": 'echo "0=[$0] n=$# 1=[$1] 2=[$2] all=[$*]"\nfor a in "$@"; do echo "<$a>"; done\nset -- x y z\nshift\necho "n=$# 1=$1"\n',
        "func_args": 'f() { echo "f:$# [$1] 0=[$0]"; }\nf p q\necho "top:$#"\n',
        "status_last": 'echo a\n(exit %d)\n' % abs(code),
        "exit_code": 'echo a\nexit %d\necho no\n' % code,
        "exit_last": '(exit %d)\nexit\n' % (abs(code) % 256),
        "exit_in_func": 'f() { exit %d; }\nf\necho no\n' % (abs(code) % 256),
        "sete": 'set -e\necho a\nfalse\necho not\n',
        "sete_last": 'set -e\necho a\n(exit %d)\n' % (abs(code) % 256),
        "sete_trap": "trap 'echo bye:$?' EXIT\nset -e\necho a\n(exit %d)\necho not\n" % (abs(code) % 256 or 3),
        "errtrap": "trap 'echo err:$?' ERR\nfalse\necho after:$?\n",
        "exittrap_exit": "trap 'echo t:$?' EXIT\nexit %d\n" % code,
        "exittrap_last_fails": "trap 'echo t:$?' EXIT\necho a\nfalse\n",
        "alias_later": "shopt -s expand_aliases\nalias hi='echo hi-alias'\nhi '%s'\necho st:$?\n" % w.replace("'", ""),   # quoted: the work directory is shared by concurrent cases
        "alias_same": "shopt -s expand_aliases\nalias hj='echo hj-alias'; hj\necho st:$?\n",
        "alias_in_func": "shopt -s expand_aliases\nalias hk='echo hk-alias'\nf() { hk; }\nf\n",
        "alias_unalias": "shopt -s expand_aliases\nalias hm='echo hm-alias'\nhm\nunalias hm\nhm\necho st:$?\n",
        "extglob_later": "shopt -s extglob\ncase ab in @(ab|cd)) echo m;; *) echo n;; esac\n",
        "extglob_same": "shopt -s extglob; case ab in @(ab|cd)) echo m;; *) echo n;; esac\necho st:$?\n",
        "extglob_off_later": "shopt -u extglob\necho before\ncase ab in @(ab|cd)) echo m;; *) echo n;; esac\necho st:$?\n",
        "extglob_on_off_on": "shopt -s extglob\necho +(a) > /dev/null\nshopt -u extglob\necho mid\nshopt -s extglob\ncase aa in +(a)) echo m;; esac\n",
        "return_top": "echo a\nreturn 5\necho b:$?\n",
        "setu": "set -u\necho a\necho ${nope}\necho after\n",
        "interactive": 'case $- in *i*) echo I;; *) echo N;; esac\n',
        "dollar_underscore": 'echo x y\necho "$_"\n',
    }, ["A", w] if w else ["A"]


def run_ctx_modes(shell_argv, text, args, workdir, tag):
    path = os.path.join(workdir, "c%s.sh" % tag)
    with open(path, "w") as f:
        f.write(text)
    env = _env(workdir)
    res = {}

    def go(mode, argv, stdin=None):
        try:
            p = _run(shell_argv + argv, cwd=workdir, env=env, stdin=stdin, timeout=8)
            res[mode] = (p.returncode, p.stdout.decode("utf-8", "replace"), p.stderr.decode("utf-8", "replace")[:200])
        except subprocess.TimeoutExpired:
            res[mode] = ("timeout", "", "")
    go("file", [path] + args)
    go("c", ["-c", text, "name"] + args)
    go("source", ["-c", ". " + path + ' "$@"', "name"] + args)
    go("eval", ["-c", 'p=$1; shift; eval "$p"', "name", text] + args)
    with open(path, "rb") as f:
        go("stdin_s", ["-s"] + args, stdin=f)
    with open(path, "rb") as f:
        go("stdin", [], stdin=f)
    os.remove(path)
    return res


def ctx_norm(r, workdir):
    """the shell's own name and the script path are the only legitimate differences between the two shells"""
    import re
    out = r[1].replace(workdir + "/", "")
    out = re.sub(r"c[ab]\d+\.sh", "SCRIPT", out)
    out = re.sub(r"\[[^\]\s]*/(vbrush|bash)\]|\[(vbrush|brush|bash)\]", "[SHELL]", out)
    return (r[0], out)


def ctx_known(name, mode, b, a):
    """narrow classes of recorded divergences (known_findings.json); exact outputs"""
    if name == "alias_same" and b == (0, "hj-alias\nst:0\n") and a == (0, "st:127\n"):
        return KF_ALIAS
    if name == "extglob_same" and b == (0, "m\nst:0\n") and a == (2, ""):
        return KF_EXTGLOB
    if name == "extglob_off_later" and mode in ("file", "c", "source", "eval") and b == (0, "before\nn\nst:0\n") and a == (2, "before\n"):
        return KF_EXTGLOB
    if name == "setu" and mode in ("c", "source", "eval") and b == (1, "a\n") and a == (127, "a\n"):
        return KF_NOUNSET
    return None


def check_contexts(ctx, workdir, res):
    rounds = 3 if ctx.quick else 20
    jobs = []
    for r in range(rounds):
        progs, args = context_programs(ctx.rng)
        for name, text in progs.items():
            jobs.append((name, text, args, len(jobs)))

    def one(j):
        name, text, args, i = j
        return j, run_ctx_modes(brush_argv(ctx), text, args, workdir, "b%d" % i), run_ctx_modes(BASH_ARGV, text, args, workdir, "a%d" % i)
    with ThreadPoolExecutor(8) as ex:
        out = list(ex.map(one, jobs))
    dev, seen = {}, set()
    for (name, text, args, _), br, ba in out:
        for m in CTX_MODES:
            res["evaluations"] += 1
            b, a = ctx_norm(br[m], workdir), ctx_norm(ba[m], workdir)
            if b == a:
                continue
            kf = ctx_known(name, m, b, a)
            v = {"input": {"program": text, "args": args, "mode": m, "context": name},
                 "why": "delivery context %s as %s: brush %r, bash %r" % (name, m, b, a), "stderr": br[m][2]}
            if kf:
                v["known"] = kf
            dev[name] = dev.get(name, 0) + 1
            if not kf or (kf, name, m) not in seen:
                seen.add((kf, name, m))
                res["spec_violations"].append(v)
        res["nontrivial"].add("ctx:" + text)
    res["dist_modes"]["context_programs (differential only: brush vs bash per mode)"] = len(jobs)
    res["dist_modes"]["context_deviations_by_program"] = dev

# --------------------------------------------------------------------------------------------
# purity

TOK_TEXTS = ["a@(b|c)d", "x <<< y", "a |& b", "echo 'q' \"d\" $v", "case x in a) ;;& esac", "a &> f", "cat <<E\nb\nE\n", "echo $(("]
WORD_TEXTS = ["@(a|b)", "${!x}", "${a[1]}", "~/x", "a:~/x", "$(echo)", "'q'\"d\"", "${x:-y}", "!(a)*"]
ARITH_TEXTS = ["1+2", "a=3", "x++ + ++y", "1 ? 2 : 3", "", "a[1]=2", "1 +", "08"]
PROG_TEXTS = ["echo @(a|b)\n", "a <<< b\n", "[[ x == y ]]\n", "if true; then echo; fi\n", "echo 'unterminated\n", "f() { :; }\n",
              "echo a |& cat\n", "x=(1 2)\n", "echo ;;\n", "time -p ls\n"]



# every field of the option struct of every memoised parse entry point is varied.  The fields come
# from the Rust source (the translator's reading of the struct behind the function's parameter), the
# letters are the harness's option letters, the texts are chosen so that the result depends on the field.
FIELD_LETTER = {"enable_extended_globbing": "e", "posix_mode": "p", "sh_mode": "s",
                "tilde_expansion_at_word_start": "t", "tilde_expansion_after_colon": "c"}
API_OF_SITE = {("brush-parser/src/tokenizer.rs", "uncached_tokenize_string"): "tok",
               ("brush-parser/src/word.rs", "cacheable_parse"): "word",
               ("brush-core/src/shell/parsing.rs", "parse_string_impl"): "prog"}
# prog goes through Shell::parser_options: only these fields vary there (the tilde flags are constants)
SETTABLE = {"tok": "eps", "word": "epstc", "prog": "eps"}
FIELD_TEXTS = {
    # word.e: the word grammar's `extglob_enabled` rule is not consulted by `word::parse` today (extglob patterns
    # are accepted as literal text either way), so no text can depend on it; the pairs below still run, as generic texts
    ("word", "e"): [], ("word", "s"): ["${!x}", "${a[1]}"],
    ("word", "t"): ["~0", "~/x", "~", "~/work", "~1"], ("word", "c"): ["a:~", "x=~", "a:~/x", "p=/b:~/c"],
    ("word", "p"): [],
    ("tok", "e"): ["a@(b|c)d", "x!(y)"], ("tok", "s"): ["x <<< y", "a |& b", "a &> f"], ("tok", "p"): [],
    ("prog", "e"): ["echo @(a|b)\n", "echo !(x)\n"], ("prog", "s"): ["a <<< b\n", "[[ x == y ]]\n", "echo a |& cat\n"],
    ("prog", "p"): [],
}
GENERIC_TEXTS = {"word": ["$x", "'q'", "@(a|b)", "~0"], "tok": ["echo a"], "prog": ["echo a\n"]}


def option_fields():
    """-> {api: [letters of the bool fields of the option struct of the memoised function]} from the sources"""
    from translator import ex_c15
    out = {}
    for site in ex_c15.cached_sites():
        api = API_OF_SITE.get((site["where"], site["fn"]))
        if api is None:
            continue
        for pname, pty in zip(site["params"], site["ptypes"]):
            ty = pty.lstrip("&").strip()
            if ty in ex_c15.PRIMITIVE or ty == "str":
                continue
            rel, src, m = ex_c15._find_type(ty)
            kt = [k for k in ex_c15.key_types([{"key_comps": [ty], "idents": [], "params": [], "ptypes": []}]) if k["name"] == ty.split("::")[-1]]
            letters = []
            for fname, fty in kt[0]["fields"]:
                if fty == "bool":
                    if fname not in FIELD_LETTER:
                        raise core.CheckBroken("purity check cannot vary the new option field %s.%s: add it to the harness option letters" % (ty, fname))
                    letters.append(FIELD_LETTER[fname])
            out[api] = letters
    for api in API_OF_SITE.values():
        if api not in out:
            raise core.CheckBroken("purity check: memoised entry point for %s not found in the sources" % api)
    return out


def field_sequences(ctx):
    """for every field f: the same text with f off/on (other fields at several settings), both orders"""
    seqs, pairs = [], []
    fields = option_fields()
    for api, letters in sorted(fields.items()):
        settable = [l for l in letters if l in SETTABLE[api]]
        for f in settable:
            others = [l for l in settable if l != f]
            bases = ["", "".join(others)] + others + ["".join(o for o in others if o in "et")]
            for base in sorted(set(bases)):
                off, on = base, "".join(sorted(base + f))
                for t in FIELD_TEXTS.get((api, f), []) + GENERIC_TEXTS[api]:
                    a, b = (api, off, t), (api, on, t)
                    seqs += [[a, b], [b, a], [a, b, a, b]]
                    pairs.append((api, f, t, a, b))
    return seqs, pairs, fields


# texts that differ only in ways a lossy (non-injective) cache key could collapse: for every memoised entry
# point, pairs (t, v) are parsed in both orders in long-lived processes and compared with fresh processes
FAMILY_SEEDS = {
    "arith": ["x + ++y", "a - --b", "a+ +b", "a- -b", "1 + 2", "a=3", "x ? y : z", "a[1]+b", "A+b", "10", "x<<2", "a&&b", "- -a", "x+1"],
    "word": ["a b", "$x y", "'a b'", "${x:-a b}", "~/x", "A$b", "a\\ b", "\"a b\"c", "ab"],
    "tok": ["echo a b", "a|b", "x 'y z'", "A b", "a >f", "a;b", "ab c"],
    "prog": ["echo a b\n", "a | b\n", "x='y z'\n", "if a; then b; fi\n", "A b\n", "f() { a; }\n", "echo ab\n"],
}
FAMILY_DESIGNED = {
    "arith": [("x + ++y", "x++ + y"), ("a - --b", "a-- - b"), ("a+ +b", "a++b"), ("a- -b", "a--b"), ("1 + 2", "12"), ("- -a", "--a")],
    "word": [("a b", "ab"), ("$x y", "$xy")], "tok": [("a b", "ab"), ("echo a b", "echo ab")],
    "prog": [("echo a b\n", "echo ab\n"), ("a; b\n", "a\nb\n")],
}
FAMILY_OPTS = {"arith": "", "word": "et", "tok": "e", "prog": "e"}


def text_variants(rng, t):
    """-> [(kind, variant)]: perturbations a lossy key (trim, strip blanks, lower-case, hash of a prefix, length, ...) could collapse"""
    out = []
    body = t[:-1] if t.endswith("\n") and len(t) > 1 else t
    tail = t[len(body):]
    nb = [c for c in body if c not in " \t"]
    # every/some placements of single blanks between the non-blank characters
    n = len(nb)
    masks = range(1 << (n - 1)) if 1 < n <= 6 else [rng.getrandbits(max(n - 1, 1)) for _ in range(14)]
    for m in masks:
        v = "".join(c + (" " if i < n - 1 and (m >> i) & 1 else "") for i, c in enumerate(nb))
        out.append(("blank placement", v + tail))
    out += [("leading blank", " " + t), ("trailing blank", body + " " + tail), ("doubled blanks", body.replace(" ", "  ") + tail),
            ("tab for blank", body.replace(" ", "\t") + tail), ("newline for blank", body.replace(" ", "\n") + tail),
            ("blank for newline", body.replace("\n", " ") + tail), ("no final newline", body),
            ("upper case", body.upper() + tail), ("lower case", body.lower() + tail), ("swapped case", body.swapcase() + tail),
            ("quote style", body.translate({39: 34, 34: 39}) + tail),
            ("prefix", body[:-1] + tail), ("suffix", body[1:] + tail), ("extended", body + "a" + tail), ("extended front", "a" + body + tail),
            ("reversed", body[::-1] + tail), ("sorted characters", "".join(sorted(body)) + tail),
            ("same length", body[:-1] + ("b" if body[-1:] != "b" else "c") + tail),
            ("leading zero", "".join("0" + c if c.isdigit() and (i == 0 or not body[i - 1].isalnum()) else c for i, c in enumerate(body)) + tail)]
    for i in range(len(body) - 1):
        if body[i] != body[i + 1]:
            out.append(("adjacent characters swapped", body[:i] + body[i + 1] + body[i] + body[i + 2:] + tail))
    seen, res = {t}, []
    for k, v in out:
        if v and v not in seen:
            seen.add(v)
            res.append((k, v))
    return res


def family_sequences(ctx):
    seqs, pairs = [], []
    for api, seeds in sorted(FAMILY_SEEDS.items()):
        o = FAMILY_OPTS[api]
        fam = [("designed", a, b) for a, b in FAMILY_DESIGNED[api]]
        for t in seeds:
            vs = text_variants(ctx.rng, t)
            fam += [(k, t, v) for k, v in vs]
            # variants among themselves (two spacings of the same characters)
            sp = [v for k, v in vs if k == "blank placement"]
            fam += [("blank placement", a, b) for a, b in zip(sp, sp[1:])]
        for k, a, b in fam:
            seqs.append([(api, o, a), (api, o, b)])
            seqs.append([(api, o, b), (api, o, a)])     # the next index goes to another long-lived process
            pairs.append((api, k, a, b))
    return seqs, pairs

def purity_cases(ctx):
    rng = ctx.rng
    seqs = []
    apis = [("tok", TOK_TEXTS, ["e", "", "es", "s", "ep"]), ("word", WORD_TEXTS, ["et", "t", "est", "etc", "", "ep"]),
            ("arith", ARITH_TEXTS, [""]), ("prog", PROG_TEXTS, ["e", "", "es", "s", "ep"])]
    # all orders of small sets of (text, options) items, same text under different options adjacent
    for api, texts, opts in apis:
        items = [(api, o, t) for t in texts[:4] for o in opts[:3]]
        for perm in itertools.permutations(items, 3):
            seqs.append(list(perm))
        # the same text under every option setting, every order
        for t in texts:
            for perm in itertools.permutations(opts[:4] if len(opts) >= 4 else opts):
                seqs.append([(api, o, t) for o in perm])
        # eviction: more than 64 distinct keys between two uses of the same text
        for t in texts[:3]:
            fill = [(api, opts[0], ("echo f%d" if api in ("tok", "prog") else "f%d") % i + ("\n" if api == "prog" else "")) for i in range(70)]
            seqs.append([(api, opts[0], t)] + fill + [(api, opts[-1], t), (api, opts[0], t)])
    n_designed = len(seqs)
    for _ in range(300 if ctx.quick else 3000):
        api, texts, opts = rng.choice(apis)
        seqs.append([(api, rng.choice(opts), rng.choice(texts)) for _ in range(rng.randrange(2, 12))])
    if ctx.quick:
        # keep the quick tier bounded: a seeded sample of the designed orders plus all same-text sequences
        keep = [s for s in seqs[:n_designed] if len({x[2] for x in s}) == 1 or len(s) > 60]
        rest = [s for s in seqs[:n_designed] if not (len({x[2] for x in s}) == 1 or len(s) > 60)]
        seqs = keep + rng.sample(rest, min(len(rest), 2500)) + seqs[n_designed:]
    fseqs, pairs, fields = field_sequences(ctx)
    tseqs, tpairs = family_sequences(ctx)
    return tseqs + fseqs + seqs, pairs, fields, tpairs


def check_purity(ctx, res):
    seqs, field_pairs, fields, text_pairs = purity_cases(ctx)
    flat = [list(x) for s in seqs for x in s]
    uniq = sorted({tuple(x) for x in flat})
    fresh = ctx.impl("c15fresh", [list(u) for u in uniq], shards=16, timeout=IMPL_TIMEOUT)
    fresh_of = dict(zip(uniq, fresh))
    # long-lived: one process per quarter of the sequences, each seeing its sequences in order
    parts = [seqs[i::4] for i in range(4)]

    def run_part(part):
        cases = [list(x) for s in part for x in s]
        return cases, ctx.impl("c15parse", cases, shards=1, timeout=IMPL_TIMEOUT)
    with ThreadPoolExecutor(4) as ex:
        outs = list(ex.map(run_part, parts))
    n = 0
    sens = set()
    by_text = {}
    for u in uniq:
        by_text.setdefault((u[0], u[2]), set()).add(fresh_of[u])
    for k, v in by_text.items():
        if len(v) > 1:
            sens.add(k)
    for cases, out in outs:
        prev = None
        for c, o in zip(cases, out):
            n += 1
            before, prev = prev, c
            f = fresh_of[tuple(c)]
            if o != f and sum(1 for v in res["spec_violations"] if "api" in v.get("input", {})) < 25:
                res["spec_violations"].append({"input": {"api": c[0], "options": c[1], "text": c[2],
                                                         "parsed_just_before": {"options": before[1], "text": before[2]} if before else None},
                                               "why": "parse result in a long-lived process differs from a fresh process "
                                                      "(depends on what was parsed before): %r vs fresh %r" % (
                                                          core.dec_line(o)[-1:] if " " in o else o, core.dec_line(f)[-1:] if " " in f else f)})
    res["evaluations"] += n + len(uniq)
    res["dist_purity"] = {"sequences": len(seqs), "parses_long_lived": n, "fresh_processes": len(uniq),
                          "option_sensitive_texts": len(sens), "texts": len(by_text)}
    # every field that has texts chosen for it must really change the fresh result of one of them
    field_sens = {}
    for api, f, t, a, b in field_pairs:
        if fresh_of[a] != fresh_of[b]:
            field_sens.setdefault((api, f), set()).add(t)
    blind = sorted("%s.%s" % k for k, v in FIELD_TEXTS.items() if v and k[1] in fields.get(k[0], []) and k[1] in SETTABLE[k[0]] and k not in field_sens)
    if blind:
        raise core.CheckBroken("purity check: no text whose parse depends on option field(s) %s: the check would be blind to a key that drops them" % blind)
    # text families: how many pairs of each kind really parse differently (only those can expose a lossy key)
    fam = {}
    for api, k, a, b in text_pairs:
        o = FAMILY_OPTS[api]
        d = fresh_of[(api, o, a)] != fresh_of[(api, o, b)]
        e = fam.setdefault("%s: %s" % (api, k), [0, 0])
        e[0] += 1
        e[1] += 1 if d else 0
    res["dist_purity"]["text_family_pairs (total, parse differently)"] = fam
    dead = sorted(k for k, (n_, d_) in fam.items() if k.endswith("designed") and d_ < n_)
    if dead:
        raise core.CheckBroken("purity check: designed colliding texts no longer parse differently: %s" % dead)
    res["dist_purity"]["fields_varied"] = {api: "".join(ls) for api, ls in fields.items()}
    res["dist_purity"]["field_sensitive_texts"] = {"%s.%s" % k: len(v) for k, v in sorted(field_sens.items())}
    if len(sens) < 8:
        raise core.CheckBroken("purity check lost its option-sensitive texts (%d): the check would be blind to a key that drops options" % len(sens))
    for k in sens:
        res["nontrivial"].add("purity:%s:%s" % k)



def check_tilde_purity(ctx, workdir, res):
    """the word cache through the real binary: arithmetic evaluation and prompt expansion parse words
    with tilde expansion at the word start OFF, ordinary command words with it ON; the same `~`-word used
    both ways in one process, in both orders, must give what each use gives in a process of its own"""
    pairs = [("n=$((~0)); echo \"<$n>\"", "echo ~0"),
             ("echo \"<$((~1))>\"", "echo ~1"),
             ("v='~'; echo \"${v@P}\"", "echo ~"),
             ("v='~/work'; echo \"${v@P}\"", "echo ~/work"),
             ("v='~/x:~/y'; echo \"${v@P}\"", "p=~/x:~/y; echo $p")]

    def run1(text):
        try:
            p = _run(brush_argv(ctx) + ["-c", text], cwd=workdir, env=_env(workdir), timeout=8)
            return p.stdout.decode("utf-8", "replace")
        except subprocess.TimeoutExpired:
            return "?timeout"
    sens = 0
    for a, b in pairs:
        fa, fb = run1(a), run1(b)
        if fa.strip("<>\n") != fb.strip("<>\n"):
            sens += 1
        for prog, exp in ((a + "\n" + b, fa + fb), (b + "\n" + a, fb + fa), (a + "\n" + b + "\n" + a, fa + fb + fa),
                          ("f() { %s; }; f; %s; f" % (b, a), fb + fa + fb)):
            res["evaluations"] += 1
            got = run1(prog)
            if got != exp:
                res["spec_violations"].append({"input": {"program": prog, "mode": "-c"},
                                               "why": "the same ~-word used in arithmetic/prompt expansion and as a command word in one "
                                                      "process prints %r; each use in a process of its own prints %r" % (got, exp)})
    res["dist_purity"]["tilde_pairs"] = len(pairs)
    res["dist_purity"]["tilde_pairs_where_the_two_uses_differ"] = sens
    if sens < 2:
        raise core.CheckBroken("tilde purity scripts lost their sensitivity (%d pairs differ)" % sens)


def check_regex_purity(ctx, workdir, res):
    """REGEX_CACHE (key: pattern, case-insensitive, multiline) through the real binary: the same
    regex / glob pattern under alternating nocasematch in one process vs one process per test"""
    items = [("s", "[[ AB =~ ^ab$ ]]"), ("u", "[[ AB =~ ^ab$ ]]"), ("s", "[[ AB == a? ]]"), ("u", "[[ AB == a? ]]"),
             ("u", "[[ ab =~ ^ab$ ]]"), ("s", "[[ $'a\\nB' == a*b ]]"), ("u", "[[ $'a\\nB' == a*b ]]"),
             ("s", "case Ab in ab) true;; *) false;; esac"), ("u", "case Ab in ab) true;; *) false;; esac")]

    def prog(seq):
        return "".join("shopt -%s nocasematch; %s; echo $?\n" % it for it in seq)

    def run1(text):
        p = _run(brush_argv(ctx) + ["-c", text], cwd=workdir, env=_env(workdir), timeout=8)
        return p.stdout.decode().split()
    fresh = {it: run1(prog([it])) for it in items}
    seqs = list(itertools.permutations(items, 3))
    if ctx.quick:
        seqs = ctx.rng.sample(seqs, 120)
    seqs.append(tuple(items) * 2)
    with ThreadPoolExecutor(8) as ex:
        outs = list(ex.map(lambda sq: run1(prog(sq)), seqs))
    for sq, o in zip(seqs, outs):
        res["evaluations"] += 1
        exp = [fresh[it][0] if fresh[it] else "?" for it in sq]
        if o != exp:
            res["spec_violations"].append({"input": {"program": prog(sq), "mode": "-c"},
                                           "why": "pattern tests under alternating nocasematch in one process give %r, one process per test gives %r" % (o, exp)})
    sens = sum(1 for a in items for b in items if a[1] == b[1] and a[0] != b[0] and fresh[a] != fresh[b]) // 2
    res["dist_purity"]["regex_sequences"] = len(seqs)
    res["dist_purity"]["regex_option_sensitive_tests"] = sens
    if sens < 3:
        raise core.CheckBroken("regex purity check lost its option-sensitive tests")

# --------------------------------------------------------------------------------------------
# LRU store

def check_lru(ctx, res):
    rng = ctx.rng
    cases = []
    for cap in (1, 2, 3):
        for n in range(1, 6 if ctx.quick else 8):
            for seq in itertools.product("abc" if cap < 3 else "abcd", repeat=n):
                cases.append([str(cap)] + list(seq))
    for _ in range(300 if ctx.quick else 3000):
        cap = rng.choice([1, 2, 3, 4, 5, 8, 64])
        keys = [str(rng.randrange(0, cap + 3)) for _ in range(rng.randrange(1, 40))]
        cases.append([str(cap)] + keys)
    cases.append(["64"] + [str(i) for i in range(70)] + ["0", "5", "69", "6"])
    impl = ctx.impl("c15lru", cases, timeout=IMPL_TIMEOUT)
    model = ctx.model("c15lru", cases)
    res["model_cases"]["c15lru"] = cases
    res["model_out"]["c15lru"] = model
    res["evaluations"] += len(cases)
    for c, i, m in zip(cases, impl, model):
        if i != m:
            res["model_mismatches"].append({"what": "cached::LruCache differs from the LRU model", "cap": c[0], "keys": c[1:],
                                            "code": core.dec_line(i), "model": core.dec_line(m)})
    res["dist_lru"] = {"cases": len(cases), "with_eviction": sum(1 for c in cases if len(set(c[1:])) > int(c[0]))}


# --------------------------------------------------------------------------------------------

def new_res():
    return {"evaluations": 0, "model_mismatches": [], "spec_violations": [], "spec_vs_bash": {}, "notes": [],
            "dist_class": {}, "dist_prefix": {}, "dist_modes": {}, "file_out": {}, "nontrivial": set(), "model_cases": {}, "model_out": {}}


def crosscheck(ctx, res):
    total = agree = 0
    for entry in ("c15lru", "c15nm", "c15chunks", "c15modes", "c15lex", "c15lexchunks"):
        cases, out = res["model_cases"].get(entry, []), res["model_out"].get(entry, [])
        if not cases:
            continue
        small = [i for i in range(len(cases)) if sum(len(x) for x in cases[i]) < 1500]
        idx = ctx.rng.sample(small, min(14, len(small)))
        ce = ctx.coq_eval(entry, [cases[i] for i in idx])
        for i, v in zip(idx, ce):
            total += 1
            if v == out[i]:
                agree += 1
            else:
                raise core.CheckBroken("extracted runner and vm_compute disagree on %s case %r: %r vs %r" % (entry, cases[i], out[i], v))
    return {"cases": total, "agree": agree}


def finish(ctx, res, progs):
    kinds = {}
    for _, ks, _ in progs:
        for k in ks:
            kinds[k] = kinds.get(k, 0) + 1
    out = {
        "evaluations": res["evaluations"],
        "distinct_nontrivial": len(res["nontrivial"]),
        "rule": "programs: 2-6 top-level segments drawn from 24 constructs (if/elif/else, while, for, case, brace group, subshell, "
                "&&/|| and | at end of line, backslash continuation, multi-line single/double quotes, here-documents (plain, quoted, "
                "<<-, two on one command, in a pipeline), multi-line $( ) and $(( )), [[ ]], function definitions and calls, blank and "
                "comment lines, trailing comments, EXIT trap, exit/(exit n)), nested to depth 2, every simple command printing $LINENO "
                "with a unique tag; each program is delivered as file, -c, source, eval and stdin (brush and bash), cut into chunks by "
                "the real input backend and by the model, and every line-prefix is classified. Purity: all 3-permutations of "
                "(text, options) items per parse entry point, every text under every order of option settings, sequences with more than "
                "64 distinct keys between repeats, random sequences. LRU: all key sequences up to length 5 (7 thorough) over 3-4 keys "
                "for capacities 1-3 plus random ones up to capacity 64. Lexical fragment: every text up to length 4 (6 thorough) over "
                "{a, b, blank, newline, ', \", backslash, #} plus random longer ones (real parser verdict vs scanner model; real front-end "
                "chunks vs model chunks). Toy front-end programs: print/continuation/here-document/if/and-or/nested eval/trap/exit segments in "
                "all five modes, code vs model vs specification vs bash. non-trivial = a program whose run printed at least one $LINENO "
                "probe (distinct by text), a (api, text) pair whose parse result depends on the options (distinct by pair), a toy program whose "
                "stdin run printed a probe, or a fragment text the real front-end cut into more than one chunk",
        "samples": [{"program": prog_text(p[0], p[2])} for p in progs[6:9]] + [{"program": prog_text(progs[0][0])}],
        "distribution": {"constructs": kinds, "parser_verdicts": res["dist_class"], "prefix_decisions": res["dist_prefix"],
                         "modes": res["dist_modes"], "purity": res.get("dist_purity"), "lru": res.get("dist_lru"), "lexical_fragment": res.get("dist_lex")},
        "model_mismatches": res["model_mismatches"],
        "spec_violations": res["spec_violations"],
        "spec_vs_bash": res["spec_vs_bash"],
        "notes": res["notes"][:20],
    }
    return out


def run(ctx):
    res = new_res()
    workdir = tempfile.mkdtemp(prefix="c15-", dir=core.SCRATCH if os.path.isdir(core.SCRATCH) else "/var/tmp")
    try:
        progs = gen_programs(ctx, 170 if ctx.quick else 1500)
        check_lru(ctx, res)
        check_purity(ctx, res)
        check_regex_purity(ctx, workdir, res)
        check_tilde_purity(ctx, workdir, res)
        check_lex(ctx, workdir, res)
        texts, want = check_chunks_and_prefixes(ctx, progs, workdir, res)
        check_concat(ctx, progs, res)
        check_toy_modes(ctx, workdir, res, want)
        check_modes(ctx, progs, workdir, res)
        check_contexts(ctx, workdir, res)
        check_eval_lines(ctx, progs, workdir, res)
        out = finish(ctx, res, progs)
        out["extraction_crosscheck"] = crosscheck(ctx, res)
        return out
    finally:
        shutil.rmtree(workdir, ignore_errors=True)


def search(ctx, res):
    """after a broken tie: more programs, code against the spec oracles only"""
    import random
    saved = ctx.rng
    ctx.rng = random.Random(ctx.seed + 1)
    r2 = new_res()
    workdir = tempfile.mkdtemp(prefix="c15s-", dir=core.SCRATCH if os.path.isdir(core.SCRATCH) else "/var/tmp")
    try:
        progs = gen_programs(ctx, 600)
        try:
            check_purity(ctx, r2)
        except core.CheckBroken as e:
            r2["notes"].append(str(e))
        r2.setdefault("dist_purity", {})
        try:
            check_tilde_purity(ctx, workdir, r2)
        except core.CheckBroken as e:
            r2["notes"].append(str(e))
        check_modes(ctx, progs, workdir, r2)
        # chunks against the generator's boundaries (needs no model)
        texts = [prog_text(s, st) for s, _, st in progs]
        impl_chunks = ctx.impl("c15chunks", [["e", t] for t in texts], timeout=IMPL_TIMEOUT)
        for (segs, _, strip), t, il in zip(progs, texts, impl_chunks):
            code = core.dec_line(il) if not il.startswith(("PANIC", "DIED", "TIMEOUT")) else [il]
            expect = prog_chunks(segs, strip)
            r2["evaluations"] += 1
            if code != expect:
                b, acc = [], ""
                for l in lines_of(t):
                    acc += l
                    if bash_n(acc, workdir) == "complete":
                        b.append(acc)
                        acc = ""
                if acc:
                    b.append(acc)
                if b == expect:
                    r2["spec_violations"].append({"input": {"program": t, "mode": "stdin chunks"},
                                                  "why": "standard input was cut into %r, the commands are %r" % (code, expect)})
    finally:
        shutil.rmtree(workdir, ignore_errors=True)
        ctx.rng = saved
    sv = [v for v in r2["spec_violations"] if not v.get("known")]
    sv.sort(key=lambda v: len(str(v["input"])))
    return {"evaluations": r2["evaluations"], "spec_violations": sv[:5]}


def run_code_only(ctx):
    r = search(ctx, {})
    r.update({"distinct_nontrivial": r["evaluations"], "rule": "code vs spec oracles only (model did not build)", "samples": []})
    return r
