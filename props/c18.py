"""C18 — long sessions do not leak descriptors, children or internal stacks."""
import json, random
from vlib import core
from props import c16

PID = "C18"
ENTRIES = {}   # the entry c18 is registered by props/c16.py (same Coq module)
TRUSTED = [
    "modelled, not verified: the push/pop sites of brush-core interp.rs execute_command (ScopeGuard + post_execute), "
    "commands.rs SimpleCommand::execute* (post_execute on every path incl. command-not-found), invoke_shell_function "
    "(enter_function/leave_function, call-depth limit), shell/execution.rs source_file (push_script/pop), "
    "shell/traps.rs invoke_trap_handler (enter/leave_trap_handler), env.rs push_scope/pop_scope, callstack.rs push_*/pop",
    "serde dump of brush_core::Shell (feature `serde`): length of env.scopes and of call_stack.frames",
    "descriptors (/proc/$$/fd), zombie children (ps --ppid) and equality of the k-th iteration's output with the first "
    "are MEASURED at process level (exploration, 1/2/50/500 repetitions): not covered by a theorem",
    "python renderer AST -> shell text (props/c16.py)",
]
ASSUMPTIONS = ["single-threaded use of one Shell; no background jobs, no multi-command pipelines, no coprocesses in the "
               "iterated sequences (C11/C17 cover those)"]


def gen(ctx, n, off=0):
    progs = []
    for k in range(n):
        rng = random.Random((ctx.seed + off) * 7919 + k)
        g = c16.Gen(rng, exec_ok=False, faults=0.22, exit_ok=rng.random() < 0.3)
        funs, cmds = g.program()
        md = rng.choice([None, None, 1, 2, 3])
        progs.append((g, funs, cmds, md))
    return progs


def handwritten():
    P = lambda c: ("P", c)
    progs = []
    faults = [("PF",), ("PN",), ("AF",), ("AN",), ("OF",), ("ON",), ("RF",), ("SM",), ("N",), ("R", 3), ("X", 3), ("F",)]
    tag = [5000]

    def nt():
        tag[0] += 1
        return tag[0]
    for f in faults:
        for kind in range(9):
            funs = []
            c = P(f)
            if kind == 1: funs, c = [("B", c)], P(("C", 0))
            if kind == 2: funs, c = [("B", c), ("B", P(("C", 0)))], P(("C", 1))
            if kind == 3: c = P(("V", c))
            if kind == 4: c = P(("S", c))
            if kind == 5: c = P(("L", 2, c))
            if kind == 6: funs, c = [("B", P(("L", 2, P(("I", c, P(("R", 1)), P(("R", 2)))))))], P(("C", 0))
            if kind == 7: c = P(("U", c))
            if kind == 8: funs, c = [("B", P(("S", P(("V", c)))))], P(("C", 0))
            for md in (None, 1):
                for trap in (False, True):
                    cmds = []
                    if trap:
                        cmds.append(P(("TE", ("Z", P(("E", nt())), c))))
                    cmds += [P(("E", nt())), c, P(("E", nt())), c, P(("E", nt()))]
                    progs.append((None, funs, cmds, md))
    return progs


def cases_of(funs, cmds, md, fixed):
    rd = c16.Render()
    lines = ["f%d() %s" % (i, rd.r(f)) for i, f in enumerate(funs)] + [rd.r(c) for c in cmds]
    ic = ["_" if md is None else str(md), str(len(lines))] + lines
    for n, c in rd.files.items():
        ic += [n, c]
    t = []
    for f in funs:
        c16.toks(f, t)
    for c in cmds:
        c16.toks(c, t)
    fuel = 100 + 6 * max([c16.depth(c) for c in funs + cmds] or [1])
    mc = ["1" if fixed else "0", str(fuel), "_" if md is None else str(md), str(len(funs))] + t
    return ic, mc, lines


def quads(fields):
    return [tuple(fields[i:i + 4]) for i in range(0, len(fields) - 3, 4)]


def probe_fixed(ctx):
    """does the tree honour `exit` inside a handler? (the model has both variants)"""
    ic = ["_", "2", "trap 'exit 5' ERR", "false"]
    out = core.dec_line(ctx.impl("depth", [ic])[0])
    return quads(out)[-1][3] == "x" if len(out) >= 8 else False


def evaluate(ctx, progs):
    fixed = probe_fixed(ctx)
    ics, mcs, texts = [], [], []
    for _, funs, cmds, md in progs:
        ic, mc, lines = cases_of(funs, cmds, md, fixed)
        ics.append(ic); mcs.append(mc); texts.append(lines)
    model = ctx.model("c18", mcs)
    # programs on which the model runs out of fuel recurse without bound in brush and in bash alike
    # (`set -E; trap '( false )' ERR; false`: every subshell starts with a clean set of running
    # handlers); in-process they would overflow the harness's stack, so they are not run
    live = [k for k, ml in enumerate(model) if "NOFUEL" not in [x for x in core.dec_line(ml)]]
    got = ctx.impl("depth", [ics[k] for k in live], shards=min(core.NPROC, 8))
    impl = ["SKIPPED"] * len(ics)
    for k, l in zip(live, got):
        impl[k] = l
    mism, specv = [], []
    st = {"commands": 0, "fault_commands": 0, "exit_sessions": 0, "nofuel": 0, "fixed_variant": fixed}
    for (g, funs, cmds, md), il, ml, lines, ic in zip(progs, impl, model, texts, ics):
        inp = {"max_function_call_depth": md, "commands": lines, "files": dict(zip(ic[2 + len(lines)::2], ic[3 + len(lines)::2]))}
        if il == "SKIPPED":
            st["nofuel"] += 1
            continue
        if il.startswith(("PANIC", "DIED", "TIMEOUT")) or not il:
            specv.append({"input": inp, "why": "the session did not complete: %s" % il[:200]})
            continue
        cq = quads(core.dec_line(il))
        mq = quads(core.dec_line(ml))
        if any(q[3] == "NOFUEL" for q in mq):
            st["nofuel"] += 1
            continue
        nf = len(funs)
        # the property itself, on the code's own dump: after every command the stacks are back at rest
        for k, q in enumerate(cq):
            st["commands"] += 1
            if (q[0], q[1]) != ("1", "0"):
                specv.append({"input": inp, "why": "after command %d (%r) the shell holds %s variable scopes and %s call frames; "
                                                   "at rest it holds 1 and 0" % (k, lines[k] if k < len(lines) else "?", q[0], q[1])})
                break
        if cq and cq[-1][3] == "x":
            st["exit_sessions"] += 1
        if cq[nf:] != mq:
            mism.append({"input": inp, "code": cq[nf:], "model": mq})
    return ics, mcs, impl, model, mism, specv, st


# ---------------------------------------------------------------------------------------------
# process-level exploration: descriptors, zombies, k-th iteration = first iteration

# no pipeline and no command substitution while listing: brush runs those in-process and their pipe
# descriptors would be counted. The listing child's own pidfd/socket may or may not be in flight,
# so each phase samples five times and the minimum (steady state) is compared.
ONE = ('ls /proc/$$/fd >$D/fd.txt; ps -o stat= --ppid $$ >$D/ps.txt; '
       'echo "R $(wc -l <$D/fd.txt) $(grep -c Z <$D/ps.txt)"')
MEASURE = "; ".join([ONE] * 5)


def phase_min(rs):
    vals = [tuple(int(x) for x in r.split()[1:3]) for r in rs]
    return (min(v[0] for v in vals), min(v[1] for v in vals))


def nonfatal(c):
    """fatal expansion errors end the shell, so an iterated body uses their non-fatal twins"""
    m = {"PF": "PN", "AF": "AN", "OF": "ON"}
    if c[0] in m:
        return (m[c[0]],)
    return tuple(nonfatal(x) if isinstance(x, tuple) else x for x in c)


def explore(ctx, nprog, reps):
    progs = []
    for k in range(nprog):
        rng = random.Random(ctx.seed * 31 + k)
        g = c16.Gen(rng, exec_ok=False, faults=0.3, exit_ok=False)
        funs, cmds = g.program()
        # no trap handlers that could end the loop, keep the ERR/EXIT traps out of the iterated body
        cmds = [c for c in cmds if not any(n[0] in ("TX", "TE", "SE") for n in c16.walk(c))] or [("P", ("F",))]
        funs = [f if not any(n[0] in ("TX", "TE", "SE") for n in c16.walk(f)) else ("B", ("P", ("F",))) for f in funs]
        progs.append(([nonfatal(f) for f in funs], [nonfatal(c) for c in cmds]))
    cases = []
    for funs, cmds in progs:
        for n in reps:
            rd = c16.Render()
            lines = ["f%d() %s" % (i, rd.r(f)) for i, f in enumerate(funs)]
            urng = random.Random(ctx.seed * 53 + len(cases) // len(reps))
            units = [urng.choice(RAW_FD_UNITS) for _ in range(3)]
            body = "; ".join([rd.r(c) for c in cmds] + units)
            lines.append("fok() { :; }")
            lines.append("body() { %s; }" % body)
            lines.append(MEASURE)
            # the counter must not be `i`: the generated `for i in …` loops assign it (with `i` the loop
            # never ended for N > 4 whenever the body held a for loop - the TIMEOUTs seen with seed 1)
            lines.append("vk=0; while [ $vk -lt %d ]; do echo ITER; body; vk=$((vk+1)); done" % n)
            lines.append(MEASURE)
            f = ["f", "v", "\n".join(lines) + "\n"]
            for nm, c in rd.files.items():
                f += [nm, c]
            cases.append(f)
    FIRST_BUDGET = 60
    out = ctx.impl("trapsproc", cases, shards=min(core.NPROC, 8), timeout=3000,
                   env={"VERIF_CASE_TIMEOUT": str(FIRST_BUDGET), "VERIF_CASE_CPU": str(4 * FIRST_BUDGET)})

    def elapsed(line):
        f = core.dec_line(line)
        try:
            return int(f[2]) / 1000.0
        except (IndexError, ValueError):
            return None

    def finished(line):
        return bool(line) and not line.startswith(("TIMEOUT", "DIED", "SPAWNFAIL"))

    # A run that exceeds its wall budget says nothing about leaks: the body x N may simply take longer than
    # the budget on a loaded machine. Such a case is re-run alone with a budget scaled by N and by the
    # measured time of one iteration; it is a violation only if it still does not finish although one
    # iteration does (within a budget the check can afford); otherwise it is recorded as inconclusive.
    inconclusive = []
    nrep = len(reps)
    for pi in range(len(progs)):
        base = pi * nrep
        for j, n in enumerate(reps):
            k = base + j
            if finished(out[k]) or not out[k].startswith("TIMEOUT"):
                continue
            one = out[base] if reps[0] == 1 else None
            t1 = elapsed(one) if one and finished(one) else None
            if t1 is None:
                # not even the single iteration is known to finish: try it alone, generously
                r1 = ctx.impl("trapsproc", [cases[base]], shards=1, timeout=1200,
                              env={"VERIF_CASE_TIMEOUT": "300", "VERIF_CASE_CPU": "1200"})[0]
                if finished(r1):
                    out[base] = r1
                    t1 = elapsed(r1)
            if t1 is None:
                inconclusive.append({"n": n, "why": "one iteration did not finish within 300 s either", "script": cases[k][2][:400]})
                continue
            if n == 1:
                continue   # replaced above
            budget = int(60 + 4 * n * max(t1, 0.05))
            if budget > 900:
                inconclusive.append({"n": n, "one_iteration_s": t1, "needed_budget_s": budget,
                                     "why": "budget beyond what the check can afford", "script": cases[k][2][:400]})
                continue
            r = ctx.impl("trapsproc", [cases[k]], shards=1, timeout=budget + 60,
                         env={"VERIF_CASE_TIMEOUT": str(budget), "VERIF_CASE_CPU": str(4 * budget)})[0]
            if finished(r):
                out[k] = r
                inconclusive.append({"n": n, "one_iteration_s": t1, "why": "finished in %.1f s when re-run alone (budget %d s)"
                                     % (elapsed(r) or -1, budget), "resolved": True})
            else:
                out[k] = "STUCK one iteration takes %.2f s, %d iterations did not finish in %d s" % (t1, n, budget)
    bad = []
    offsets = []
    k = 0
    measured = 0
    for funs, cmds in progs:
        first_iter = None
        per_n = {}
        per_iter_time = {}
        for n in reps:
            line = out[k]; case = cases[k]; k += 1
            if line.startswith("STUCK"):
                bad.append({"script": case[2], "why": line}); continue
            if line.startswith("TIMEOUT"):
                continue   # recorded under inconclusive_timeouts
            if line.startswith(("DIED", "SPAWNFAIL")):
                bad.append({"script": case[2], "why": line}); continue
            f = core.dec_line(line)
            text = f[1] if len(f) > 1 else ""
            ls = text.split("\n")
            rs = [l for l in ls if l.startswith("R ")]
            if len(rs) != 10:
                bad.append({"script": case[2], "why": "the loop did not finish (%d measurements, status %s)" % (len(rs), f[0] if f else "?"),
                            "tail": ls[-5:]}); continue
            measured += 1
            if elapsed(line) is not None:
                per_iter_time[n] = elapsed(line) / n
            before, after = phase_min(rs[:5]), phase_min(rs[5:])
            if before != after:
                # lazily created runtime descriptors (signal pipe, pidfd socket of the first child) show
                # up as a small constant offset: recorded, not alarmed on
                offsets.append({"n": n, "before": before, "after": after})
            per_n[n] = after
            iters = text.split("ITER\n")[1:]
            if iters:
                iters[-1] = iters[-1].split("R ", 1)[0]
                if first_iter is None:
                    first_iter = iters[0]
                diff = [j for j, it in enumerate(iters) if it != first_iter]
                if diff:
                    bad.append({"script": case[2], "why": "iteration %d of %d prints %r, the first printed %r" % (diff[0], n, iters[diff[0]][:200], first_iter[:200])})
        # a leak grows with the number of iterations: one descriptor or zombie per iteration gives +498
        # between 2 and 500 repetitions; anything below 20 is measurement noise
        lo, hi = per_n.get(min(reps[1], reps[-1])), per_n.get(reps[-1])
        if lo and hi and (hi[0] - lo[0] >= 20 or hi[1] - lo[1] >= 20):
            bad.append({"script": cases[k - 1][2], "why": "(descriptors, zombie children) grow with the number of "
                        "iterations: %r" % sorted(per_n.items())})
        # the k-th iteration must not get slower: time per iteration at the largest N against N = 50
        # (both long enough to average out start-up); a factor 10 is far beyond scheduling noise
        if len(reps) >= 4 and reps[-2] in per_iter_time and reps[-1] in per_iter_time:
            a_, b_ = per_iter_time[reps[-2]], per_iter_time[reps[-1]]
            if a_ > 0.002 and b_ > 10 * a_:
                bad.append({"script": cases[k - 1][2], "why": "time per iteration grows with the number of iterations: "
                            "%.4f s at N=%d, %.4f s at N=%d" % (a_, reps[-2], b_, reps[-1])})
    unresolved = [x for x in inconclusive if not x.get("resolved")]
    return {"programs": nprog, "repetitions": list(reps), "runs_measured": measured, "anomalies": bad[:5], "anomaly_count": len(bad),
            "constant_offsets_seen_not_alarmed": offsets[:5], "constant_offset_count": len(offsets),
            "inconclusive_timeouts": unresolved[:10], "inconclusive_timeout_count": len(unresolved),
            "timeouts_resolved_by_rerun": len(inconclusive) - len(unresolved)}


# ---------------------------------------------------------------------------------------------
# generic leak detector (in-process): every integer field and every array/map length of the serde dump of
# Shell after 1, 2 and 50 iterations of a body. Part of the verdict (not exploration).

KF_ENTRY_COUNT = "KF-C18-env-entry-count-drift"

RAW_UNITS = [
    ". $D/empty.sh", ". $D/comments.sh", ". $D/blank.sh", ". /dev/null", ". $D/args.sh a b c", "source $D/comments.sh cfg-arg",
    ". $D/empty.sh x y", "fsrc", ". $D/nonexistent.sh",
    "pushd $D/work >/dev/null; popd >/dev/null", "pushd $D/nonexistent", "pushd $D/empty.sh", "popd", "popd +7", "dirs",
    "pushd -n $D/work; popd -n", "pushd $D/work; pushd $D/nonexistent; popd", "pushd", "cd $D/nonexistent", "cd $D/work; cd -",
    "set -- a b c; shift", "set -- a; shift 5", "fargs x y z", "fargs", "shift",
    "compgen -F nofn -- x", "compgen -F fcomp -- x", "compgen -F ffail -- x", "compgen -F fdiv -- x", "complete -F nofn mycmd",
    "compgen -F fnest -- x", "compgen -W 'aa ab' -- a",
    "trap ': d' DEBUG; true; false; trap - DEBUG", "trap 'false' ERR; false; trap - ERR", "trap ': r' RETURN; fargs q; trap - RETURN",
    "eval 'return 3'", "fret", "for i in 1 2; do break 5; done", "break", "continue 2",
    "floopret", "fdeep", "alias zz=true; unalias zz", "unalias nosuch", "declare -a arr=(1 2); unset arr", "fnot_defined_zz",
    "read x </nonexistent/x", "exec 7</dev/null; exec 7<&-", "true 7</nonexistent/x", "( exit 3 )", "echo $(false)",
    "true | false", "{ false; } 2>/nonexistent/x",
]
# every way a descriptor-producing construct can fail (single-line ones are also used by the process-level runs)
RAW_FD_UNITS = [
    "coproc bad-name { :; }", "coproc 1x { :; }",
    "true >/nonexistent/x", "true >>/nonexistent/x", "true 2>/nonexistent/x", "true &>/nonexistent/x", "true <>/nonexistent/d/x",
    "true >|/nonexistent/x", "true 3</nonexistent/x", "true <&9", "true >&9", "true 9>&-", "{ true; } >/nonexistent/x",
    "( true ) </nonexistent/x", "fok >/nonexistent/x", "for i in 1; do :; done </nonexistent/x", "if true; then :; fi >/nonexistent/x",
    "while false; do :; done 2>/nonexistent/x", "true >/dev/null 2>/nonexistent/x 3>/dev/null", "exec 8>/nonexistent/x",
    "true <<< $((1/0))", "true <(false)", "true < <(exit 3)", "no_such_cmd_zz <(true)", "true <(true) >/nonexistent/x",
    "true >(false)",
]
RAW_FD_MULTILINE = [
    "cat <<EOF >/nonexistent/x\nh\nEOF", "cat <<EOF >/dev/null\n$((1/0))\nEOF", "no_such_cmd_zz <<EOF\nx\nEOF",
    "true <<EOF 3</nonexistent/x\nh\nEOF",
]
KF_COPROC = "KF-C18-coproc-fds"
KF_COMPRO = "KF-C18-compgen-readonly-comp-var"
KF_FNREDIR = "KF-C18-fn-redirect-caller-params"

# round 4: early-return paths of the dispatchers themselves. (a) functions whose DEFINITION carries a redirection
# that cannot be opened at call time (missing directory, directory as target, missing input, closed descriptor,
# noclobber hit, target depending on the function's own arguments, subshell body), called plainly, with temporary
# assignments, through eval/command/a pipeline/another function/a trap handler; (b) completion functions run while
# one of the COMP_* variables the protocol publishes cannot be assigned (readonly, globally or as a readonly local
# of the caller). Used by the in-process fingerprint AND by the process-level error-path family (traps must still
# fire afterwards, FUNCNAME/$#/$1 must be the caller's).
ERRPATH_PROLOGUE = [
    "fcomp() { COMPREPLY=(ca cb); }",
    "fdr1() { echo \"m $*\"; } >>/nonexistent-c18/log.txt",
    "fdr2() { echo \"m $*\"; } >$D/nonexistent/y",
    "fdr3() { echo \"m $*\"; } <$D/nonexistent.in",
    "fdr4() { echo \"m $*\"; } >$D/clobber.txt",
    "fdr5() { local v=1; echo $v; } 2>$D/work",
    "fdr6() ( echo sub ) >/nonexistent-c18/x",
    "fdr7() { echo \"m $*\"; } >\"$D/$1/out\"",
    "fdr8() { fdr1 inner; local w=2; return 3; }",
    "fdr9() { echo x; } >&9",
    "fdr10() { echo x; } >/dev/null 2>/nonexistent-c18/x 3>/dev/null",
    "fdr11() { for i in 1 2; do fdr2 $i; fdr1 $i nonexistent; done; }",
    "frocomp1() { local -r COMP_KEY=1; compgen -F fcomp -- x; }",
    "frocomp2() { declare -r COMP_POINT=1; compgen -F fcomp -- x; return 5; }",
    "frocomp3() { local -r COMP_CWORD=1; compgen -F fcomp -- x; compgen -F fcomp -- y; }",
    "frocomp4() { local -r COMP_LINE=zz; local -r COMP_TYPE=1; compgen -F fdr1 -- x; }",
    "frocomp5() { local -ra COMP_WORDS=(a b); compgen -F fcomp -- x; }",
]
ERRPATH_UNITS = [
    "fdr1 a b c", "fdr2 a b", "fdr3", "set -C; fdr4 q; set +C", "fdr5 a", "fdr6", "fdr7 nonexistent", "fdr7 work", "fdr8 z", "fdr9 k",
    "fdr10 a b", "fdr11", "X=1 fdr1 a", "X=1 Y=2 fdr7 nonexistent p q", "eval 'fdr1 a b'", "fdr1 a | true", "true | fdr2 b", "command fdr1",
    "fdr1 || fdr2 x y || fdr3", "for j in 1 2 3; do fdr7 nonexistent $j; done", "if fdr1 a; then :; fi", "! fdr2 a b",
    "trap 'fdr1 t u' ERR; false; trap - ERR", "compgen -F fdr1 -- x", "compgen -F fdr7 -- x", "( fdr1 a b )", "echo $(fdr1 a b)",
    "fdr1 a >/dev/null", "fdr1 a >/nonexistent-c18/y",
    "frocomp1", "frocomp2", "frocomp3", "frocomp4", "frocomp5", "X=1 frocomp1", "eval frocomp2", "frocomp1; frocomp3",
    "( readonly COMP_WORDS; compgen -F fcomp -- x )",
]
# these leave a readonly variable behind for the rest of the session: only ever the LAST unit of a session's body
ERRPATH_STICKY = ["readonly COMP_TYPE; compgen -F fcomp -- x", "readonly COMP_LINE; compgen -F fcomp -- x",
                  "declare -r COMP_CWORD; compgen -F fcomp -- x; compgen -F ffail -- y", "readonly COMP_KEY COMP_POINT; compgen -F fcomp -- x"]

RAW_PROLOGUE = [
    "fok() { :; }",
    "fcomp() { COMPREPLY=(ca cb); }", "ffail() { false; }", "fdiv() { : $((1/0)); }", "fnest() { compgen -F nofn -- q; false; }",
    "fargs() { shift; set -- p q; local v=1; return 2; }", "fsrc() { . $D/args.sh inner; . $D/empty.sh; return 4; }",
    "fret() { for i in 1 2; do while true; do return 7; done; done; }", "floopret() { for i in 1 2; do eval 'return 3'; done; }",
    "fdeep() { if [ ${#FUNCNAME[@]} -lt 6 ]; then fdeep; else . $D/nonexistent.sh; fi; }",
]
RAW_FILES = {"clobber.txt": "keep\n", "empty.sh": "", "comments.sh": "# site-local overrides: none yet\n\n# x\n", "blank.sh": "  \n\t\n\n",
             "args.sh": ": $# $1\n"}
# counters that are meant to grow: paths allowed to differ between 1, 2 and 50 iterations
FP_ALLOW = ("last_exit_status_change_count", "current_line_offset", "last_stopwatch", "secs_since_epoch", "nanos_since_epoch",
            "program_location_cache", ".history")


def iterfp(ctx, n):
    cases, metas = [], []
    for k in range(n):
        rng = random.Random(ctx.seed * 131 + k)
        body = []
        funs = []
        if k % 3 != 0:
            g = c16.Gen(rng, exec_ok=False, faults=0.3, exit_ok=False)
            funs, cmds = g.program()
            cmds = [c for c in cmds if not any(x[0] in ("TX", "TE", "SE") for x in c16.walk(c))] or [("P", ("F",))]
            funs = [f if not any(x[0] in ("TX", "TE", "SE") for x in c16.walk(f)) else ("B", ("P", ("F",))) for f in funs]
            rd = c16.Render()
            pro = ["f%d() %s" % (i, rd.r(nonfatal(f))) for i, f in enumerate(funs)]
            body = [rd.r(nonfatal(c)) for c in cmds]
            files = dict(rd.files)
        else:
            pro, files = [], {}
        for _ in range(rng.randrange(2, 7)):
            body.insert(rng.randrange(0, len(body) + 1), rng.choice(RAW_UNITS))
        allu = RAW_UNITS + RAW_FD_UNITS + RAW_FD_MULTILINE
        for _ in range(rng.randrange(1, 4)):
            body.insert(rng.randrange(0, len(body) + 1), rng.choice(RAW_FD_UNITS + RAW_FD_MULTILINE))
        for _ in range(rng.randrange(0, 3)):
            body.insert(rng.randrange(0, len(body) + 1), rng.choice(ERRPATH_UNITS))
        if k < len(allu):
            body.append(allu[k])        # every unit at least once on every run
        elif k - len(allu) < len(ERRPATH_UNITS):
            body.append(ERRPATH_UNITS[k - len(allu)])
        elif k - len(allu) - len(ERRPATH_UNITS) < len(ERRPATH_STICKY):
            body.append(ERRPATH_STICKY[k - len(allu) - len(ERRPATH_UNITS)])
        if k == n - 1:
            body, pro, files = ["coproc CPX { :; }"], [], {}   # the successful coproc: known finding
        pro = RAW_PROLOGUE + [x for x in ERRPATH_PROLOGUE if x not in RAW_PROLOGUE] + pro
        files.update(RAW_FILES)
        c = [str(len(pro))] + pro + [str(len(body))] + body
        for nm, txt in files.items():
            c += [nm, txt]
        cases.append(c); metas.append({"prologue": pro, "body": body})
    out = ctx.impl("iterfp", cases, shards=min(core.NPROC, 8))
    bad = []
    allowed_seen = {}
    for line, m in zip(out, metas):
        if not line.startswith("OK"):
            bad.append({"input": m, "why": "the session did not complete: %s" % line[:120]})
            continue
        fields = core.dec_line(line[2:].strip()) if line[2:].strip() else []
        leaks = []
        for f in fields:
            path = f.split("=")[0]
            if any(a in path for a in FP_ALLOW):
                allowed_seen[path.split("[")[0]] = allowed_seen.get(path.split("[")[0], 0) + 1
                continue
            leaks.append(f)
        if leaks:
            v = {"input": m, "why": "fields of the shell's state after 1/2/50 iterations of the body differ: %s" % ", ".join(leaks[:6])}
            if all(l.split("=")[0] == ".env.entry_count" for l in leaks):
                v["known"] = KF_ENTRY_COUNT
            elif m["body"] == ["coproc CPX { :; }"] and all(l.startswith((".open_files", ".env.entry_count")) for l in leaks):
                v["known"] = KF_COPROC
            bad.append(v)
    return len(cases), bad, {"sessions": len(cases), "raw_units": len(RAW_UNITS), "counters_allowed_to_grow_seen": allowed_seen}


# ---------------------------------------------------------------------------------------------
# round 4, process level, part of the verdict: after every early-return path of ERRPATH_UNITS the shell is the
# caller's again (FUNCNAME depth, $#, $1), `return` outside a function is still refused, the ERR trap still fires for
# the next failing command and the EXIT trap still runs; every iteration prints what the first printed. The status
# line is also compared with bash 5.2.

def errpath_script(unit, n, sticky):
    lines = list(ERRPATH_PROLOGUE) + ["mkdir -p $D/work; echo keep >$D/clobber.txt",
                                      "trap 'echo ERRTRAP' ERR", "trap 'echo EXITTRAP' EXIT", "set -- top"]
    if sticky:
        lines.append(sticky)
    lines.append("vk=0; while [ $vk -lt %d ]; do echo ITER; %s; echo \"st=$? depth=${#FUNCNAME[@]} n=$# 1=${1-none}\"; "
                 "return 2>/dev/null; echo \"ret=$?\"; echo MID; false; echo AFTER; vk=$((vk+1)); done" % (n, unit))
    lines.append("echo END")
    return "\n".join(lines) + "\n"


def errpaths(ctx):
    # the unit that installs its own ERR handler puts the observing one back instead of removing it
    units = [(u.replace("trap - ERR", "trap 'echo ERRTRAP' ERR"), None) for u in ERRPATH_UNITS]
    for st in ERRPATH_STICKY:
        pre, _, rest = st.partition("; ")
        units.append((rest, pre))
    cases, metas = [], []
    for j, (u, sticky) in enumerate(units):
        fe = ("f", "s", "c")[(j + ctx.seed) % 3]
        for sh in ("v", "b"):
            cases.append([fe, sh, errpath_script(u, 4, sticky)])
        metas.append({"unit": u, "readonly_before": sticky, "frontend": fe})
    out = ctx.impl("trapsproc", cases, shards=min(core.NPROC, 8), timeout=1200,
                   env={"VERIF_CASE_TIMEOUT": "60", "VERIF_CASE_CPU": "240"})
    bad = []

    def text(line):
        if not line or line.startswith(("TIMEOUT", "DIED", "SPAWNFAIL")):
            return None
        f = core.dec_line(line)
        return f[1] if len(f) > 1 else ""
    for j, m in enumerate(metas):
        tv, tb = text(out[2 * j]), text(out[2 * j + 1])
        inp = {"script": cases[2 * j][2], "frontend": m["frontend"]}
        if tv is None:
            bad.append({"input": inp, "why": "process level (error paths): the run did not complete: %s" % out[2 * j][:80]})
            continue
        why = []
        head, _, tail = tv.partition("END\n")
        iters = head.split("ITER\n")[1:]
        if len(iters) != 4 or not _:
            why.append("the loop did not finish (%d iterations seen)" % len(iters))
        if "EXITTRAP" not in tail.split("\n"):
            why.append("the EXIT trap did not run at the end")
        for k, it in enumerate(iters):
            ls = it.split("\n")
            stl = [l for l in ls if l.startswith("st=")]
            if not stl or not stl[0].endswith(" depth=0 n=1 1=top"):
                why.append("iteration %d: after `%s` the top level sees %r (expected depth=0 n=1 1=top)" % (k, m["unit"], stl[:1]))
                break
            if "ret=0" in ls:
                why.append("iteration %d: `return` at top level succeeded after `%s`" % (k, m["unit"]))
                break
            mid = it.partition("MID\n")[2].partition("AFTER\n")[0]
            if "ERRTRAP" not in mid.split("\n"):
                why.append("iteration %d: the ERR trap did not fire for `false` after `%s`" % (k, m["unit"]))
                break
            if it != iters[0]:
                why.append("iteration %d prints %r, the first printed %r" % (k, it[:200], iters[0][:200]))
                break
        v = None
        if why:
            v = {"input": inp, "why": "process level (error paths): " + "; ".join(why)}
        elif tb is not None:
            sv = [l for l in tv.split("\n") if l.startswith(("st=", "ret="))]
            sb = [l for l in tb.split("\n") if l.startswith(("st=", "ret="))]
            if sv != sb:
                v = {"input": inp, "why": "process level (error paths): status lines differ from bash: brush %r, bash %r" % (sv[:2], sb[:2])}
                # decidable class of the known finding: a completion function run while a COMP_* variable is readonly,
                # brush reports status 1 where bash reports the function's result; nothing else differs
                if ("COMP_" in (m["unit"] + (m["readonly_before"] or "")) or "frocomp" in m["unit"]) \
                        and [l.split(" ", 1)[1:] for l in sv] == [l.split(" ", 1)[1:] for l in sb]:
                    v["known"] = KF_COMPRO
                # definition-time redirection words see the CALLER's positional parameters: exactly this witness
                elif m["unit"] == "fdr7 work" and sv == [l.replace("st=0 ", "st=1 ", 1) for l in sb]:
                    v["known"] = KF_FNREDIR
        if v:
            bad.append(v)
    return len(metas), bad


def run(ctx):
    hw = handwritten()
    progs = hw + gen(ctx, 1500 if ctx.quick else 12000)
    ics, mcs, impl, model, mism, specv, st = evaluate(ctx, progs)
    sidx = ctx.rng.sample(range(len(mcs)), min(40, len(mcs)))
    ce = ctx.coq_eval("c18", [mcs[i] for i in sidx])
    bad = [i for i, v in zip(sidx, ce) if v != model[i]]
    if bad:
        raise core.CheckBroken("extracted runner and vm_compute disagree on case %r" % (mcs[bad[0]],))
    fpn, fpbad, fpst = iterfp(ctx, 150 if ctx.quick else 1200)
    specv.extend(fpbad)
    epn, epbad = errpaths(ctx)
    specv.extend(epbad)
    ex = explore(ctx, 24 if ctx.quick else 150, (1, 2, 50, 500))
    for a in ex["anomalies"]:
        specv.append({"input": {"script": a["script"]}, "why": "process level: " + a["why"]})
    kinds = {}
    for _, funs, cmds, _ in progs:
        for k in {n[0] for c in funs + cmds for n in c16.walk(c)}:
            kinds[k] = kinds.get(k, 0) + 1
    fault_kinds = ("PF", "PN", "AF", "AN", "OF", "ON", "RF", "SM", "N")
    distinct = {json.dumps(c) for c, (_, funs, cmds, _) in zip(mcs, progs)
                if any(n[0] in fault_kinds or n[0] in ("R", "X") for c2 in funs + cmds for n in c16.walk(c2))}
    return {
        "evaluations": len(progs) + ex["runs_measured"] + fpn + epn,
        "distinct_nontrivial": len(distinct),
        "rule": "in-process sessions (one run_string per command, serde dump after each): %d hand-enumerated fault leaf x "
                "nesting (function, nested function, eval, source, loop, return out of loop in function, subshell, "
                "source+eval in function) x call-depth limit x ERR handler programs + %d random programs with fault "
                "leaves at rate 0.22 and call-depth limits None/1/2/3; non-trivial = contains a fault leaf or return/exit; "
                "plus process-level exploration (descriptor count, zombie count, per-iteration output) of %d random "
                "bodies iterated 1/2/50/500 times" % (len(hw), len(progs) - len(hw), ex["programs"]),
        "samples": [{"commands": ics[0][2:2 + int(ics[0][1])]}, {"commands": ics[-1][2:2 + int(ics[-1][1])]}],
        "distribution": {"programs_with_node_kind": kinds, "session_stats": st, "generic_state_fingerprint": fpst,
                         "process_level_exploration_not_proof": ex},
        "notes": ["proof-backed (model + theorems + correspondence): scope-stack and call-stack depth of the modelled language",
                  "verdict, differential/observational only: every integer field and array/map length of the serde dump of Shell "
                  "after 1, 2 and 50 iterations (directory stack, positional parameters, trap suppression count, active trap "
                  "signals, function/source depth, open files, aliases, …) over bodies with empty/comment-only/blank sourced "
                  "files, /dev/null, sourcing with arguments, pushd/popd/dirs incl. failing ones, completion functions, "
                  "break/continue/return out of nested constructs (%d sessions)" % fpn,
                  "process-level measurements are exploration, not proof",
                  "inconclusive_timeouts (exploration runs that exceeded their wall budget and could not be decided): %d; "
                  "resolved by a re-run alone with a budget scaled by N: %d"
                  % (ex["inconclusive_timeout_count"], ex["timeouts_resolved_by_rerun"])],
        "inconclusive_timeouts": ex["inconclusive_timeouts"],
        "extraction_crosscheck": {"cases": len(sidx), "agree": len(sidx) - len(bad)},
        "model_mismatches": mism,
        "spec_violations": specv,
    }


def search(ctx, res0):
    progs = handwritten() + gen(ctx, 8000, off=5)
    ics, mcs, impl, model, mism, specv, st = evaluate(ctx, progs)
    specv.sort(key=lambda v: len(json.dumps(v["input"])))
    return {"evaluations": len(progs), "spec_violations": specv[:5]}


def run_code_only(ctx):
    r = search(ctx, {})
    r.update({"distinct_nontrivial": r["evaluations"], "rule": "code vs the at-rest depths only (model did not build)", "samples": []})
    return r
