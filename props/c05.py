"""C05 — unquoted words expand to the same argument lists as in bash."""
import itertools
from vlib import core
from props import c04_lib as X

PID = "C05"
ENTRIES = {"xp": ("Expand.Entry", "entry_xp"), "xpspec": ("Expand.Entry", "entry_xpspec"),
           "xpknown": ("Expand.Entry", "entry_xpknown"), "brace": ("Expand.Entry", "entry_brace"),
           "bspec": ("Expand.Entry", "entry_bspec")}
TRUSTED = [
    "modelled, not verified: brush-core/src/expansion.rs (basic_expand, expand_word_piece, expand_parameter_expr arms "
    ":- - :+ + #, process_double_quoted_pieces, coalesce_expansions, split_fields, expand_pathnames_in_field), "
    "braceexpansion.rs (generate_and_combine_brace_expansions) and brace_expand_if_needed (join with blanks, \"\" for empty)",
    "the specification Expand/SplitSpec.v + BraceSpec.v is validated against /usr/bin/bash 5.2.15 on every run (spec_vs_bash)",
    "brush-parser word / brace grammars: not modelled; every run checks word::parse(render(AST)) = AST and "
    "parse_brace_expansions(text) = the tree given to the model; the re-parse of the joined brace result is an oracle "
    "fed from the real parser",
    "oracles: environment, command output, arithmetic value, tilde target, ANSI-C decoding, glob-metacharacter test, "
    "directory matcher (executable stand-ins in Expand/GlobRef.v for the correspondence)",
]
ASSUMPTIONS = ["IFS consists of blanks, tabs and newlines only (or is unset / empty): the quantifier of the property",
               "bash is run with LC_ALL=C.UTF-8 (code-point collation, like brush's byte-wise sort)"]

import re
# an escaped dollar directly followed by a single-quoted string that ends in a backslash:  \$'..\'
ESC_DOLLAR_Q = re.compile(r"\\\$'[^']*\\'")

VALUES = ["", " ", "a", "a b", " a  b ", "*", "a*", "[ab]", "?", "a\nb", "\ta", "x y z", "~", "{a,b}", "'q'", "\\*",
          "b*  c?", "é", "-n", "a:b", "  ", "\n", "*  ", ".*"]
DIRS = [
    ["a", "b", "ab", "a b", "abc", ".hid", "x y", "xy", "*", "a*", "[ab]", "é", "c", "q", "-n"],
    [],
    [".a", ".b", "A", "a"],
]
IFSES = [None, None, " \t\n", " ", "\n", "", "\t", " \n"]
OPTSETS = ["", "", "", "n", "F", "d", "f", "e", "nd"]
TEXTS = ["a", "b", "*", "?", "[ab]", "a*", "x.y", "-", "=", "ab", "c", "%", "+", "@", "_", "1", ".", ".*", "[", "]", "a]", "[a"]
SQ = ["", "a b", "*", " ", "a", "$x", "\\", "?", "[ab]"]
ANSI = ["a\\nb", "\\t", "x", ""]
DQTEXT = ["a b", " ", "*", "a", "  x  ", "?", "'", "[ab]", ":"]
ESCS = ["\\*", "\\ ", "\\a", "\\$", "\\\\", '\\"', "\\'", "\\?", "\\["]
DQESCS = ["\\$", "\\\\", '\\"', "\\`"]
CMDS = {"printf 'a b\\n\\n'": "a b\n\n", "printf ' a  b '": " a  b ", "printf '*'": "*", "printf ''": "",
        "printf 'x'": "x", "printf '\\n'": "\n", "printf 'a\\n\\nb\\n'": "a\n\nb\n", "printf '[ab] ?'": "[ab] ?"}
ARITH = {"1+2": "3", "7": "7", "10*10": "100"}
SUBWORDS = ["$@", "\"$@\"", "$*", "", "d", "a b", "'a b'", '"a b"', "$y", '"$y"', "*", "a*", " ", "' '", "x y", "\\*", '""', "''", "$e", "b"]
SCALARS = ["x", "y", "e", "u"]


def gen_param(rng, dq):
    r = rng.random()
    if r < 0.45:
        return ("n", rng.choice(SCALARS))
    if r < 0.55:
        return ("1", rng.randrange(1, 4))
    if r < 0.70:
        return ("@",)
    if r < 0.78:
        return ("*",)
    if r < 0.88:
        return ("R", "a")
    if r < 0.93:
        return ("S", "a")
    if r < 0.97:
        return ("i", "a", rng.randrange(0, 3))
    return ("c",)


def gen_pexpr(rng, dq, nested):
    r = rng.random()
    p = gen_param(rng, dq)
    if r < 0.70 or not nested:
        return ("p", p, rng.random() < 0.4)
    if p[0] == "c":
        p = ("n", "x")          # ${#-w} ${#+w} ${##} read as operations on other parameters
    if r < 0.83:
        return ("d", rng.random() < 0.6, p, rng.choice(SUBWORDS))
    if r < 0.95:
        return ("a", rng.random() < 0.6, p, rng.choice(SUBWORDS))
    return ("l", p)


def gen_dq(rng, nested):
    n = rng.choice([0, 1, 1, 1, 2, 2, 3])
    out = []
    for _ in range(n):
        r = rng.random()
        if r < 0.30 and not (out and out[-1][0] == "T"):
            out.append(("T", rng.choice(DQTEXT)))
        elif r < 0.80:
            out.append(("P", gen_pexpr(rng, True, nested)))
        elif r < 0.88:
            out.append(("X", rng.choice(list(CMDS)), False))
        elif r < 0.93:
            out.append(("A", rng.choice(list(ARITH))))
        else:
            out.append(("E", rng.choice(DQESCS)))
    return ("D", out)


def gen_word(rng, nested=True, maxp=4):
    n = rng.choice([1, 1, 2, 2, 2, 3, 3, 4][:2 * maxp])
    out = []
    if rng.random() < 0.06:
        out.append(("~", ""))
        if rng.random() < 0.5:
            out.append(("T", "/x"))
        else:
            return out
    for _ in range(n):
        r = rng.random()
        if r < 0.22:
            if out and out[-1][0] in ("T", "~"):
                continue
            out.append(("T", rng.choice(TEXTS)))
        elif r < 0.30:
            out.append(("Q", rng.choice(SQ)))
        elif r < 0.33:
            out.append(("C", rng.choice(ANSI)))
        elif r < 0.55:
            out.append(gen_dq(rng, nested))
        elif r < 0.85:
            out.append(("P", gen_pexpr(rng, False, nested)))
        elif r < 0.91:
            out.append(("X", rng.choice(list(CMDS)), rng.random() < 0.2))
        elif r < 0.95:
            out.append(("A", rng.choice(list(ARITH))))
        else:
            out.append(("E", rng.choice(ESCS)))
    if not out:
        out.append(("T", "a"))
    return fix_adjacency(out)


NAMECH = set("abcdefghijklmnopqrstuvwxyzABCDEFGHIJKLMNOPQRSTUVWXYZ0123456789_")


def fix_adjacency(word):
    """force ${..} where the next piece's text would be absorbed into the parameter name / array subscript"""
    out = []
    for i, p in enumerate(word):
        if p[0] == "D":
            p = ("D", fix_adjacency(p[1]))
        if p[0] == "P" and p[1][0] == "p":
            nxt = word[i + 1] if i + 1 < len(word) else None
            ntext = X.render_piece(nxt)[:1] if nxt is not None else ""
            if ntext and (ntext in NAMECH or ntext == "["):
                p = ("P", ("p", p[1][1], True))
        out.append(p)
    return out


def gen_env(rng):
    vars_ = [("x", rng.choice(VALUES)), ("y", rng.choice(VALUES)), ("e", ""), ("HOME", "/hm")]
    if rng.random() < 0.85:
        vars_.append(("a", [rng.choice(VALUES) for _ in range(rng.choice([0, 1, 2, 2, 3]))]))
    args = [rng.choice(VALUES) for _ in range(rng.choice([0, 0, 1, 2, 2, 3]))]
    return vars_, args


def gen_cases(ctx, n):
    rng = ctx.rng
    cases = []
    for _ in range(n):
        w = gen_word(rng)
        vars_, args = gen_env(rng)
        cx = rng.choice(["arg", "arg", "arg", "arrelem"])
        if cx == "arrelem" and X.render(w).startswith("["):
            cx = "arg"          # `a=([...` is subscript syntax in bash
        c = X.Case(cx, w, ifs=rng.choice(IFSES), opts=rng.choice(OPTSETS),
                   args=args, vars=vars_, names=rng.choice(DIRS), cmd_out=CMDS, arith=ARITH, tag="rand")
        c.value = None
        cases.append(c)
    # tilde prefixes (~ ~/x ~+ ~- ~N ~user) whose target holds blanks, glob characters, newlines
    for _ in range(max(1, n // 8)):
        c = X.gen_tilde_case(rng, IFSES, OPTSETS, DIRS, ctxs=("arg", "arg", "arrelem"))
        c.cmd_out, c.arith = CMDS, ARITH
        cases.append(c)
    return cases


# ---------------------------------------------------------------- known classes (decidable on the case)

def param_elems(c, p):
    if p[0] in ("@", "*"):
        return c.args
    if p[0] in ("R", "S"):
        for n, v in c.vars:
            if n == p[1]:
                return v if isinstance(v, list) else [v]
        return []
    return None


def scalar_val(c, p):
    if p[0] == "n":
        for n, v in c.vars:
            if n == p[1]:
                return v if isinstance(v, str) else (v[0] if v else None)
        return None
    if p[0] == "1":
        return c.args[p[1] - 1] if p[1] - 1 < len(c.args) else None
    if p[0] == "i":
        for n, v in c.vars:
            if n == p[1]:
                if isinstance(v, str):
                    return v if p[2] == 0 else None
                return v[p[2]] if p[2] < len(v) else None
        return None
    if p[0] == "c":
        return str(len(c.args))
    return None


def classes(c, cr, ref):
    """-> every recorded class the case lies in (a case where the code differs from the reference)"""
    out = []
    ifs = " \t\n" if c.ifs is None else c.ifs
    flatp = X.flat(c.word)
    subwords = X.subword_requests(c.word)
    # "$*" / "${a[*]}" (and scalar joins) under IFS='': joined with a blank instead of nothing
    if ifs == "" and any(p[0] == "P" and p[1][0] in ("p", "d", "a") and
                         (p[1][1] if p[1][0] == "p" else p[1][2])[0] in ("*", "S") for p in flatp):
        out.append("KF-C05-star-empty-ifs")
    if ESC_DOLLAR_Q.search(c.text):
        out.append("KF-C05-escaped-dollar-quote")
    if bracket_across(c):
        out.append("KF-C05-bracket-across-quotes")
    # bash keeps at most one quoted-null of a word in some shapes: ""$x${e:-""} loses its trailing empty
    # field although $x${e:-""} keeps it.  Class: an unquoted ${p op ""} / ${p op ''} next to another quoting
    # piece, the two results differing only in empty fields.
    if cr[0] == "OK" and ref[0] == "OK" and [f for f in cr[1] if f != ""] == [f for f in ref[1] if f != ""] \
            and any(p[0] == "P" and p[1][0] in ("d", "a") and p[1][3] in ('""', "''") for p in c.word) \
            and any(p[0] in ("Q", "D") for p in c.word):
        out.append("KF-C05-bash-quoted-null-once")
    # "${a[@]+''}"-style: a quoted-null default/alternative of a [@] expansion is removed by bash like "$@"
    for p in flatp:
        if p[0] == "P" and p[1][0] in ("d", "a") and p[1][2][0] in ("@", "R") and p[1][3] in ("''", '""'):
            out.append("KF-C05-dq-at-null")
    # ${@:+w} ${a[@]:-w}: a list of two or more empty elements is not null in bash (they print as blanks)
    for p in flatp:
        if p[0] == "P" and p[1][0] in ("d", "a") and p[1][1] and p[1][2][0] in ("@", "R", "*", "S"):
            el = param_elems(c, p[1][2])
            if len(el) >= 2 and all(x == "" for x in el) and not (p[1][2][0] in ("*", "S") and ifs == ""):
                out.append("KF-C05-list-null-test")
    if py_known_at_null(c):
        out.append("KF-C05-dq-at-null")          # = known_at_null of Expand/SpecProofs.v (cross-checked in run())
    for p in c.word:
        if p[0] == "D":
            for q in p[1]:
                if q[0] == "P" and q[1][0] in ("d", "a"):
                    par = q[1][2]
                    if par[0] in ("@", "R") and not param_elems(c, par):
                        out.append("KF-C05-dq-at-null")
    # ${#v}: byte length instead of character length
    for p in flatp:
        if p[0] == "P" and p[1][0] == "l":
            v = scalar_val(c, p[1][1])
            if v is not None and any(ord(ch) > 127 for ch in v):
                out.append("KF-C05-length-bytes")
    # dot-files: only the FIRST piece of the field is inspected for a leading '.'
    def dotted(p):
        if p[0] == "T":
            return p[1].startswith(".")
        if p[0] == "P":
            e = p[1]
            par = e[1] if e[0] in ("p", "l") else e[2]
            el = param_elems(c, par)
            if el is not None:
                return any(x.startswith(".") for x in el)
            v = scalar_val(c, par)
            return bool(v) and v.startswith(".")
        return False
    for k, p in enumerate(c.word):
        if k > 0 and dotted(p) and any(q[0] in ("Q", "D", "P", "X", "C") for q in c.word[:k]):
            out.append("KF-C05-dot-first-piece")
    # default / alternative words holding list expansions or quotes: nested field structure
    for (wtext, dq), (_q, _t) in subwords.items():
        if "$@" in wtext or "$*" in wtext or "[@]" in wtext:
            out.append("KF-C05-list-in-default-word")
    return out



def classify(c, cr, ref, extra=()):
    """attribution prefers OPEN classes; a deviating case lying only in fixed classes keeps a fixed id, which
    the driver reports as a VIOLATION"""
    return X.pick_class(list(extra) + classes(c, cr, ref))


def list_op_form(c):
    """a ${p op w} whose p is a list ($@ $* ${a[@]} ${a[*]}) or whose w contains a list expansion"""
    for p in X.flat(c.word):
        if p[0] == "P" and p[1][0] in ("d", "a"):
            if p[1][2][0] in ("@", "*", "R", "S") or any(t in p[1][3] for t in ("$@", "$*", "[@]", "[*]")):
                return True
    return False


def bracket_across(c):
    """a top-level literal piece leaves a [ unclosed and a later top-level literal piece has a ]"""
    open_seen = False
    for p in c.word:
        if p[0] == "T":
            t = p[1]
            if open_seen and "]" in t:
                return True
            if "[" in t and "]" not in t[t.rindex("["):]:
                open_seen = True
    return False


def py_known_at_null(c):
    """the driver's copy of Gallina known_at_null (Expand/SpecProofs.v): some top-level double-quoted string
    holds a zero-element plain [@] expansion, and its other pieces leave nothing but quoted-null marks
    (at least one).  None-returning helper pieces (operator forms) make the string not-known here."""
    def marks_only(q):
        """-> number of marks if the piece leaves only marks, else None"""
        k = q[0]
        if k == "T":
            return 1 if q[1] == "" else None
        if k == "Q":
            return 1 if q[1] == "" else None
        if k == "C":
            return 1 if X.ansic_decode(q[1]) == "" else None
        if k in ("~", "E", "A"):
            return None
        if k == "X":
            out = c.cmd_out.get(q[1], "").replace("\0", "").rstrip("\n")
            return 1 if out == "" else None
        if k == "P" and q[1][0] == "p":
            par = q[1][1]
            if par[0] in ("@", "R"):
                el = param_elems(c, par)
                if not el:
                    return 0
                return 1 if (len(el) == 1 and el[0] == "") else None
            if par[0] in ("*", "S"):
                el = param_elems(c, par)
                joiner = " " if c.ifs is None else c.ifs[:1]
                return 1 if joiner.join(el) == "" else None
            v = scalar_val(c, par)
            return 1 if (v is None or v == "") else None
        if k == "P" and q[1][0] in ("d", "a"):
            # operator forms (outside the theorem's fragment): null result for the simple sub-words
            colon, par, w = q[1][1], q[1][2], q[1][3]
            if par[0] in ("@", "R", "*", "S"):
                el = param_elems(c, par)
                is_set, nonnull = bool(el), any(x != "" for x in el)
            else:
                v = scalar_val(c, par)
                is_set, nonnull = v is not None, bool(v)
            uses = nonnull if colon else is_set
            if (q[1][0] == "d") == uses:
                # the parameter itself (for d) / nothing (for a with an unused alternative)
                if q[1][0] == "a":
                    return 1
                return marks_only(("P", ("p", par)))
            subs = {"": "", '""': "", "''": "", "$e": "", '"$e"': ""}
            for nm in ("x", "y"):
                val = scalar_val(c, ("n", nm))
                subs["$" + nm] = val
                subs['"$' + nm + '"'] = val
            return 1 if subs.get(w, "?") == "" else None
        return None
    for p in c.word:
        if p[0] != "D" or not p[1]:
            continue
        zero = any(q[0] == "P" and q[1][0] == "p" and q[1][1][0] in ("@", "R") and not param_elems(c, q[1][1]) for q in p[1])
        if not zero:
            continue
        ms = [marks_only(q) for q in p[1]]
        if all(m is not None for m in ms) and sum(ms) >= 1:
            return True
    return False


MODEL_CTX = ("arg", "arrelem")


def evaluate(ctx, cases, bash_all=False, bash_sample=1500):
    subs, problems = X.check_parse_and_resolve(ctx, cases)
    impl = X.impl(ctx, "xp", [c.impl_fields() for c in cases])
    mfields = [c.model_fields(subs[i]) for i, c in enumerate(cases)]
    model = ctx.model("xp", mfields)
    spec = ctx.model("xpspec", mfields)
    mism = [{"kind": "parser-tie", **p} for p in problems]
    specv = []
    stats = {"unsupported_by_glob_reference": 0, "model_checked": 0, "spec_checked": 0, "code_err": 0,
             "code_ne_spec": 0, "by_ifs": {}, "by_nfields": {}, "pieces": {}}
    code = [X.decode_result(l) for l in impl]
    need_bash = []
    for i, c in enumerate(cases):
        cr, mr, sr = code[i], X.decode_result(model[i]), X.decode_result(spec[i])
        stats["by_ifs"][repr(c.ifs)] = stats["by_ifs"].get(repr(c.ifs), 0) + 1
        for p in X.flat(c.word):
            stats["pieces"][p[0]] = stats["pieces"].get(p[0], 0) + 1
        if cr[0] == "OK":
            k = min(len(cr[1]), 6)
            stats["by_nfields"][k] = stats["by_nfields"].get(k, 0) + 1
        else:
            stats["code_err"] += 1
        if mr[0] == "BAD" or sr[0] == "BAD":
            raise core.CheckBroken("model/spec produced no result on %r: %r %r" % (c.text, mr, sr))
        if mr[0] == "UNSUPPORTED" or sr[0] == "UNSUPPORTED":
            stats["unsupported_by_glob_reference"] += 1
            continue
        if ESC_DOLLAR_Q.search(c.text):
            # the tokenizer (not the expander) takes the ' after an escaped dollar for the start of $'...':
            # recorded finding; the command never reaches the expander, so there is nothing to compare
            stats["escaped_dollar_quote"] = stats.get("escaped_dollar_quote", 0) + 1
            if cr != sr:
                specv.append({"input": describe(c), "why": "spec %r, code gave %r" % (sr, cr),
                              "known": "KF-C05-escaped-dollar-quote"})
            continue
        stats["model_checked"] += 1
        if mr != cr:
            mism.append({"input": describe(c), "code": cr, "model": mr})
        stats["spec_checked"] += 1
        if sr != cr:
            stats["code_ne_spec"] += 1
            need_bash.append(i)
    # bash: on every case where code and spec differ (false-alarm discipline), plus a sample / all
    rest = [i for i in range(len(cases)) if i not in set(need_bash)]
    if not bash_all and len(rest) > bash_sample:
        rest = ctx.rng.sample(rest, bash_sample)
    idxs = need_bash + rest
    br = X.BashRunner()
    svb = {"compared": 0, "spec_eq_bash": 0, "spec_ne_bash": 0, "code_eq_bash": 0, "code_ne_bash": 0}
    spec_wrong = []
    try:
        bres = br.run([cases[i] for i in idxs])
    finally:
        br.close()
    differ = [i for i, b in zip(idxs, bres) if code[i] != b and b != ("TIMEOUT",)]
    if differ:
        kn = ctx.model("xpknown", [mfields[i] for i in differ])
        for i, l in zip(differ, kn):
            f = core.dec_line(l)
            coq_known = bool(f) and f[0] == "1"
            in_frag = len(f) > 1 and f[1] == "1"
            if in_frag and coq_known != py_known_at_null(cases[i]):
                raise core.CheckBroken("the driver's known_at_null differs from the Gallina definition on %r" % (describe(cases[i]),))
    for i, b in zip(idxs, bres):
        c = cases[i]
        cr, sr = code[i], X.decode_result(spec[i])
        if sr[0] == "UNSUPPORTED" or b == ("TIMEOUT",):
            continue
        svb["compared"] += 1
        if sr != b and bracket_across(c):
            svb["glob_matching_not_specified_here"] = svb.get("glob_matching_not_specified_here", 0) + 1
        elif sr != b and list_op_form(c):
            # list expansions inside ${..op..}: the specification does not claim bash's (idiosyncratic) behaviour
            svb["list_operator_forms_not_specified"] = svb.get("list_operator_forms_not_specified", 0) + 1
        else:
            svb["spec_eq_bash" if sr == b else "spec_ne_bash"] += 1
        svb["code_eq_bash" if cr == b else "code_ne_bash"] += 1
        if sr != b and not bracket_across(c) and not list_op_form(c) and len(spec_wrong) < 40:
            spec_wrong.append({"input": describe(c), "spec": sr, "bash": b, "code": cr})
        if cr != b:
            v = {"input": describe(c), "why": "bash gives %r, code gave %r (spec %r)" % (b, cr, sr),
                 "impl_fields": c.impl_fields()}
            kf = classify(c, cr, b)
            if kf:
                v["known"] = kf
            specv.append(v)
    svb["spec_disagreements_with_bash"] = spec_wrong[:20]
    return mism, specv, stats, svb, mfields, model


# ---------------------------------------------------------------- brace expansion

B_SEG = ["", "", "x", "pre", "-", "a*", ".", "$x", '"$y"', "é"]
B_ALT = ["a", "b", "", "ab", "*", "?", "$x", '"$x"', "'q r'", '"a b"', "c", "1", "[ab]", "$e", "\\,"]
B_SEQ = ["{1..3}", "{3..1}", "{1..10..3}", "{a..e}", "{e..a..2}", "{-1..1}", "{a..c..0}", "{5..5}", "{1..6..-2}",
         "{01..03}", "{A..C}"]
B_ODD = ["{a}", "{}", "{a,b", "\\{a,b}", '"{a,b}"', "${x}{a,b}", "{a,b}}", "{{a,b}", "a{,}b", "{,}", "{a,}", "{,a}"]


def gen_group(rng, depth=0):
    if rng.random() < 0.25:
        return rng.choice(B_SEQ)
    n = rng.choice([2, 2, 2, 3])
    alts = []
    for _ in range(n):
        a = rng.choice(B_ALT)
        if depth == 0 and rng.random() < 0.2:
            a = a + gen_group(rng, 1) + rng.choice(["", "z"])
        alts.append(a)
    return "{" + ",".join(alts) + "}"


def gen_brace_text(rng):
    if rng.random() < 0.12:
        return rng.choice(B_SEG) + rng.choice(B_ODD) + rng.choice(B_SEG)
    t = rng.choice(B_SEG) + gen_group(rng)
    if rng.random() < 0.35:
        t += rng.choice(["", "-", "y"]) + gen_group(rng)
    return t + rng.choice(B_SEG)


def tree_tokens(js):
    def nodes(l):
        out = [str(len(l))]
        for n in l:
            if "Text" in n:
                out += ["T", n["Text"]]
            else:
                ms = n["Expr"]
                out += ["E", str(len(ms))]
                for m in ms:
                    if "NumberSequence" in m:
                        x = m["NumberSequence"]
                        out += ["n", str(x["start"]), str(x["end"]), str(x["increment"])]
                    elif "CharSequence" in m:
                        x = m["CharSequence"]
                        out += ["c", x["start"], x["end"], str(x["increment"])]
                    else:
                        out += ["C"] + nodes(m["Child"])
        return out
    if js is None:
        return ["N"]
    return ["Y"] + nodes(js)


def brace_classes(c, products):
    import re
    out = []
    if re.search(r"\{-?0\d+\.\.|\.\.-?0\d", c.text):
        out.append("KF-C05-brace-zero-pad")
    if c.ifs is not None and " " not in c.ifs and len(products) >= 2:
        out.append("KF-C05-brace-ifs")
    if any(p == "" for p in products):
        out.append("KF-C05-brace-empty-word")
    return out


def brace_known(c, products):
    return X.pick_class(brace_classes(c, products))


def evaluate_brace(ctx, n):
    """brace words: text -> (real parser) tree -> model join -> (real parser) pieces -> model; spec: words of the
    tree, each parsed and expanded on its own; bash on everything"""
    import json
    rng = ctx.rng
    texts, envs = [], []
    for _ in range(n):
        texts.append(gen_brace_text(rng))
        envs.append((gen_env(rng), rng.choice(IFSES), rng.choice(OPTSETS), rng.choice(DIRS)))
    trees = []
    for l in X.impl(ctx, "bparse", [[t] for t in texts]):
        f = core.dec_line(l)
        try:
            trees.append(json.loads(f[0]) if f and f[0] != "ERR" else None)
        except ValueError:
            trees.append(None)
    toks = [tree_tokens(t) for t in trees]
    joined = [core.dec_line(l)[0] if core.dec_line(l) else "" for l in ctx.model("brace", [["1", t] + k for t, k in zip(texts, toks)])]
    swords = [core.dec_line(l) for l in ctx.model("bspec", [["1", t] + k for t, k in zip(texts, toks)])]
    # parse the joined text and every specification word with the real parser
    flat_sw = [(i, w) for i, ws in enumerate(swords) for w in ws]
    plines = X.impl(ctx, "wparse", [[j, ""] for j in joined] + [[w, ""] for _i, w in flat_sw])
    mism, specv = [], []
    stats = {"cases": n, "skipped_unsupported": 0, "model_checked": 0, "spec_checked": 0, "expanding": 0,
             "code_ne_spec": 0}
    cases, sub_idx = [], []
    for i, t in enumerate(texts):
        pieces = X.decode_parse(plines[i])
        if pieces is None or any(p[0].startswith("?") or (p[0] == "P" and p[1][0].startswith("?")) or
                                  (p[0] == "P" and p[1][0] in ("d", "a", "l")) for p in X.flat(pieces)):
            stats["skipped_unsupported"] += 1
            cases.append(None)
            continue
        (vars_, args), ifs, opts, names = envs[i]
        c = X.Case("arg", pieces, ifs=ifs, opts=opts, args=args, vars=vars_, names=names, cmd_out=CMDS, arith=ARITH, tag="brace")
        c.text = t
        c.value = None
        c.products = swords[i]
        if joined[i] != t:
            stats["expanding"] += 1
        cases.append(c)
    live = [i for i, c in enumerate(cases) if c is not None]
    impl = X.impl(ctx, "xp", [cases[i].impl_fields() for i in live])
    model = ctx.model("xp", [cases[i].model_fields({}) for i in live])
    # specification: every word on its own
    spec_cases, owner = [], []
    k = len(texts)
    for (i, w) in flat_sw:
        pl = plines[k]
        k += 1
        if cases[i] is None:
            continue
        pieces = X.decode_parse(pl)
        c = cases[i]
        if pieces is None or any(p[0].startswith("?") or (p[0] == "P" and p[1][0] in ("d", "a", "l")) for p in X.flat(pieces)):
            c.spec_bad = True
            continue
        sc = X.Case("arg", pieces, ifs=c.ifs, opts=c.opts, args=c.args, vars=c.vars, names=c.names, cmd_out=CMDS, arith=ARITH)
        spec_cases.append(sc.model_fields({}))
        owner.append(i)
    sres = ctx.model("xpspec", spec_cases)
    spec_of = {}
    for i, l in zip(owner, sres):
        r = X.decode_result(l)
        cur = spec_of.get(i, ("OK", []))
        if cur[0] != "OK":
            continue
        spec_of[i] = ("OK", cur[1] + r[1]) if r[0] == "OK" else r
    br = X.BashRunner()
    try:
        bres = br.run([cases[i] for i in live])
    finally:
        br.close()
    svb = {"compared": 0, "spec_eq_bash": 0, "spec_ne_bash": 0, "code_eq_bash": 0, "code_ne_bash": 0, "spec_disagreements_with_bash": []}
    for i, il, ml, b in zip(live, impl, model, bres):
        c = cases[i]
        if b == ("TIMEOUT",):
            continue
        cr, mr = X.decode_result(il), X.decode_result(ml)
        sr = spec_of.get(i, ("OK", [])) if not getattr(c, "spec_bad", False) else ("UNSUPPORTED",)
        if mr[0] == "BAD":
            raise core.CheckBroken("brace model produced no result on %r" % c.text)
        if mr[0] != "UNSUPPORTED":
            stats["model_checked"] += 1
            if mr != cr:
                mism.append({"input": describe(c), "joined": joined[i], "code": cr, "model": mr})
        if sr[0] != "UNSUPPORTED":
            stats["spec_checked"] += 1
            svb["compared"] += 1
            zp = "KF-C05-brace-zero-pad" in brace_classes(c, c.products)
            if zp and sr != b:
                # the parsed tree has lost the leading zero: the specification cannot see the padding
                svb["spec_blind_zero_pad"] = svb.get("spec_blind_zero_pad", 0) + 1
            else:
                svb["spec_eq_bash" if sr == b else "spec_ne_bash"] += 1
                if sr != b and len(svb["spec_disagreements_with_bash"]) < 20:
                    svb["spec_disagreements_with_bash"].append({"input": describe(c), "spec": sr, "bash": b, "code": cr})
            if sr != cr:
                stats["code_ne_spec"] += 1
        svb["code_eq_bash" if cr == b else "code_ne_bash"] += 1
        if cr != b:
            v = {"input": describe(c), "why": "bash gives %r, code gave %r (spec %r)" % (b, cr, sr)}
            kf = classify(c, cr, b, extra=brace_classes(c, c.products))
            if kf:
                v["known"] = kf
            specv.append(v)
    return mism, specv, stats, svb


def describe(c):
    return {"ctx": c.ctx, "word": c.text, "ifs": c.ifs, "opts": c.opts, "args": c.args, "cwdsub": getattr(c, "cwdsub", None),
            "vars": [(n, v) for n, v in c.vars if n != "HOME" or c.tag == "tilde"], "dir": c.names if len(c.names) < 8 else "DIRS[0]",
            "value": None}


def run(ctx):
    n = 12000 if ctx.quick else 240000
    cases = gen_cases(ctx, n)
    mism, specv, stats, svb, mfields, model = evaluate(ctx, cases, bash_all=True)   # batched bash is cheap: every case
    k = min(40, len(mfields))
    pick = ctx.rng.sample(range(len(mfields)), k)
    ce = ctx.coq_eval("xp", [mfields[j] for j in pick])
    bad = [j for j, v in zip(pick, ce) if v != model[j]]
    if bad:
        raise core.CheckBroken("extracted runner and vm_compute disagree on case %r" % (mfields[bad[0]],))
    bm, bv, bstats, bsvb = evaluate_brace(ctx, 3000 if ctx.quick else 60000)
    mism += bm
    specv += bv
    stats["brace"] = bstats
    for k_ in ("compared", "spec_eq_bash", "spec_ne_bash", "code_eq_bash", "code_ne_bash"):
        svb[k_] += bsvb[k_]
    svb["spec_blind_zero_pad"] = bsvb.get("spec_blind_zero_pad", 0)
    svb["spec_disagreements_with_bash"] += bsvb["spec_disagreements_with_bash"]
    distinct = {(c.text, repr(c.ifs), repr(c.args), repr(c.vars)) for c in cases if len(c.word) > 1 or c.word[0][0] != "T"}
    notes = []
    if svb["spec_ne_bash"]:
        notes.append("the specification disagrees with bash on %d cases (see spec_vs_bash.spec_disagreements_with_bash): "
                     "to be repaired in the specification" % svb["spec_ne_bash"])
    return {
        "evaluations": len(cases) + bstats["cases"],
        "distinct_nontrivial": len(distinct) + bstats["expanding"],
        "rule": "brace words (lists, sequences with step, nesting, empty alternatives, quoted alternatives, non-expanding forms; "
                "counted non-trivial when the text actually expands) and random words of 1-4 pieces (text with glob characters, '..', $'..', \"..\" with nested pieces, tilde, "
                "$v ${v} $N $@ $* ${a[@]} ${a[*]} ${a[i]} $#, ${p:-w} ${p-w} ${p:+w} ${p+w} ${#p}, $(cmd) `cmd`, $((e)), \\c) over "
                "environments with empty, blank-padded, multi-field and glob-like values, positional lists of 0-3, arrays of 0-3, "
                "IFS in {unset, default, ' ', newline, tab, ' \\n', empty}, three directory trees, nullglob/failglob/dotglob/noglob/extglob; "
                "argument and array-element context.  Non-trivial = more than a single literal piece; distinct by (word, IFS, args, vars).",
        "samples": [describe(c) for c in cases[:3]],
        "distribution": stats,
        "extraction_crosscheck": {"cases": k, "agree": k - len(bad)},
        "spec_vs_bash": svb,
        "notes": notes,
        "model_mismatches": mism,
        "spec_violations": specv,
    }


def search(ctx, res):
    import random
    saved = ctx.rng
    ctx.rng = random.Random(ctx.seed + 11)
    try:
        cases = gen_cases(ctx, 30000)
        impl = X.impl(ctx, "xp", [c.impl_fields() for c in cases])
        code = [X.decode_result(l) for l in impl]
        br = X.BashRunner()
        try:
            bres = br.run(cases)
        finally:
            br.close()
        specv = []
        for c, cr, b in zip(cases, code, bres):
            if cr != b and b != ("TIMEOUT",):
                v = {"input": describe(c), "why": "bash gives %r, code gave %r" % (b, cr)}
                kf = classify(c, cr, b)
                if kf:
                    v["known"] = kf
                specv.append(v)
        specv.sort(key=lambda v: (1 if v.get("known") else 0, len(v["input"]["word"])))
        return {"evaluations": len(cases), "spec_violations": specv[:8]}
    finally:
        ctx.rng = saved


def run_code_only(ctx):
    r = search(ctx, {})
    r.update({"distinct_nontrivial": r["evaluations"], "rule": "code vs bash only (model did not build)", "samples": []})
    return r
