"""C04 — quoted expansions arrive byte-exact: never re-split, re-globbed or re-parsed."""
import itertools, re
from vlib import core
from props import c04_lib as X

PID = "C04"
ENTRIES = {"xp": ("Expand.Entry", "entry_xp")}
TRUSTED = [
    "modelled, not verified: brush-core/src/expansion.rs (expand_word_piece, process_double_quoted_pieces, "
    "coalesce_expansions, split_fields, expand_pathnames_in_field, fields_to_string, Expansion::classify), "
    "patterns.rs Pattern::expand (literal short cut), interp.rs apply_assignment (scalar = fields_to_string, "
    "array element = full expansion)",
    "oracles of the model (explicit inputs): variable environment, command-substitution output, arithmetic value, "
    "tilde target, ANSI-C decoding, pattern_has_glob_metacharacters and the directory matcher; the executable "
    "stand-ins for the last two (Expand/GlobRef.v: *, ?, bracket expressions, escapes, flat directory) are "
    "used by the correspondence only — the theorems hold for arbitrary oracles",
    "brush-parser word grammar: not modelled; every run checks that word::parse(render(AST)) is the AST given to the model",
    "python spec oracle for the quoted templates (the literal statement of the property); /usr/bin/bash 5.2 for unquoted $x",
]
ASSUMPTIONS = ["values contain no NUL", "scratch directory names contain no newline and no '/'"]

ALPHABET = [" ", "\t", "\n", "*", "?", "[", "]", "{", "}", ",", "'", '"', "$", "`", "\\", "~", "#", "é", "a"]
EXTRA = [":", "-", "!", "b", "=", ";", "&", "|", "(", ")", "<", ">", "%", "^", "+", "@"]
DIRS = [
    ["a", "ab", "a b", "aa", "*", "*a", "?", "[", "]", "[a]", "{a,b}", "~", "#", "é", ".hid", "\\", "\\a", "'",
     '"', "$", "`", ",", "b", "ba", " ", "\t", "a*", "}", "{"],
    [],
    [".a", "a", "A", ".é"],
]
IFSES = [None, " \t\n", "", ":", "\n", "a", ":é "]
OPTSETS = ["", "", "n", "F", "d", "e", "f", "nd", "ne", "Fd"]

# ---------------------------------------------------------------- templates
# each: (name, kind, word builder, spec) ; spec(v or vs, case) -> expected ("OK", fields) | ("ERR",) | None

P_X = ("P", ("p", ("n", "x"), False))
P_XB = ("P", ("p", ("n", "x"), True))
P_AT = ("P", ("p", ("@",), False))
P_ARR = ("P", ("p", ("R", "a"), True))
CMD = 'printf %s "$x"'
CMDNL = "printf '%s\\n\\n' \"$x\""


def strip_nl(s):
    return s.rstrip("\n")


def glob_lit(prefix_lit, suffix_lit, star_first, c):
    """expected result of  "$x"*  (star_first False) or  *"$x"  (True) by the statement of the property:
    the quoted part matches only itself"""
    lit = prefix_lit + suffix_lit
    raw = ("*" + lit) if star_first else (lit + "*")
    if "f" in c.opts:
        return ("OK", [raw])
    ms = sorted((n for n in c.names
                 if (n.endswith(lit) if star_first else n.startswith(lit))
                 and (not n.startswith(".") or "d" in c.opts or (not star_first and lit.startswith(".")))),
                key=lambda n: n.encode("utf-8"))
    if ms:
        return ("OK", ms)
    if "F" in c.opts:
        return ("ERR",)
    if "n" in c.opts:
        return ("OK", [])
    return ("OK", [raw])


SCALAR_T = [
    ("dq_x", [("D", [P_X])], lambda v, c: ("OK", [v])),
    ("dq_xb", [("D", [P_XB])], lambda v, c: ("OK", [v])),
    ("dq_cmd", [("D", [("X", CMD, False)])], lambda v, c: ("OK", [strip_nl(v)])),
    ("dq_cmdnl", [("D", [("X", CMDNL, False)])], lambda v, c: ("OK", [strip_nl(v)])),
    ("pre_dq_post", [("T", "pre"), ("D", [P_X]), ("T", "post")], lambda v, c: ("OK", ["pre" + v + "post"])),
    ("dq_pre_post", [("D", [("T", "pre"), P_XB, ("T", "post")])], lambda v, c: ("OK", ["pre" + v + "post"])),
    ("dq_dq", [("D", [P_X]), ("D", [P_X])], lambda v, c: ("OK", [v + v])),
    ("dq_sq", [("D", [P_X]), ("Q", "q r")], lambda v, c: ("OK", [v + "q r"])),
    ("dq_emptydq", [("D", [P_X]), ("D", [])], lambda v, c: ("OK", [v])),
    ("emptydq_dq", [("D", []), ("D", [P_XB])], lambda v, c: ("OK", [v])),
    ("dq_emptysq", [("D", [P_X]), ("Q", "")], lambda v, c: ("OK", [v])),
    ("dq_star", [("D", [P_X]), ("T", "*")], lambda v, c: glob_lit(v, "", False, c)),
    ("star_dq", [("T", "*"), ("D", [P_X])], lambda v, c: glob_lit(v, "", True, c)),
    ("unq_x", [P_X], None),
    ("unq_pre", [("T", "pre"), P_XB, ("T", "post")], None),
    ("unq_dq", [P_X, ("D", [P_X])], None),
]
ARRAY_T = [
    ("dq_arr", [("D", [P_ARR])], "a", lambda vs: list(vs)),
    ("dq_at", [("D", [P_AT])], "@", lambda vs: list(vs)),
    ("pre_dq_arr_post", [("T", "pre"), ("D", [P_ARR]), ("T", "post")], "a",
     lambda vs: ["prepost"] if not vs else (["pre" + vs[0] + "post"] if len(vs) == 1 else
                                              ["pre" + vs[0]] + list(vs[1:-1]) + [vs[-1] + "post"])),
    ("dq_pre_at_post", [("D", [("T", "p "), P_AT, ("T", " s")])], "@",
     lambda vs: ["p  s"] if not vs else (["p " + vs[0] + " s"] if len(vs) == 1 else
                                         ["p " + vs[0]] + list(vs[1:-1]) + [vs[-1] + " s"])),
    ("dq_at_dq_arr", [("D", [P_AT, P_ARR])], "both",
     lambda vs: list(vs) if len(vs) < 1 else list(vs[:-1]) + [vs[-1] + vs[0]] + list(vs[1:])),
]
CTXS_SCALAR = ["arg", "arg", "arg", "arrelem", "assign", "herestr", "redir", "casew", "cond", "condp", "casep", "condn"]


def valid_new_filename(v, names):
    b = v.encode("utf-8")
    return v not in ("", ".", "..") and "/" not in v and "\0" not in v and len(b) <= 200 and v not in names


def line_infix(v, ref):
    """ref has several lines and the literal pattern v is a run of whole lines of it (the multi-line regex
    defect, C08 defect 9: ^ and $ match at line boundaries)"""
    if "\n" not in ref or ref == v:
        return False
    ls = ref.split("\n")
    return any("\n".join(ls[i:j]) == v for i in range(len(ls)) for j in range(i + 1, len(ls) + 1))


def scalar_case(rng, v, tname=None, ctx=None):
    name, word, spec = rng.choice(SCALAR_T) if tname is None else next(t for t in SCALAR_T if t[0] == tname)
    ctx = ctx or rng.choice(CTXS_SCALAR)
    ifs = rng.choice(IFSES)
    opts = rng.choice(OPTSETS)
    names = rng.choice(DIRS) if rng.random() < 0.8 else DIRS[0]
    ref = None
    if ctx in ("casew", "cond", "condp", "casep", "condn") and spec is None and name != "unq_x":
        name, word, spec = SCALAR_T[0]
    if ctx == "redir" and name in ("dq_star", "star_dq"):
        ctx = "arg"
    c = X.Case(ctx, word, ifs=ifs, opts=opts, vars=[("x", v), ("HOME", "/hm")], names=names,
               cmd_out={CMD: v, CMDNL: v + "\n\n"}, tag=name)
    exp = spec(v, c) if spec else None
    if ctx in ("assign", "herestr", "casew", "cond", "condn"):
        # no splitting, no globbing: the value exactly, also for the unquoted templates
        joined = {"unq_x": v, "unq_pre": "pre" + v + "post", "unq_dq": v + v}.get(name)
        if spec is None:
            exp1 = joined
        elif name in ("dq_star", "star_dq"):
            exp1 = (v + "*") if name == "dq_star" else ("*" + v)
        else:
            exp1 = exp[1][0]
        if ctx == "herestr":
            exp = ("OK", [exp1 + "\n"])
        elif ctx == "assign":
            exp = ("OK", [exp1])
        elif ctx == "condn":
            exp = ("OK", ["1" if exp1 != "" else "0"])
        else:
            # compare with a reference value: equal, or a confusable different one
            if rng.random() < 0.5:
                c.ref = exp1
            else:
                c.ref = rng.choice([exp1 + " ", " " + exp1, exp1 + "\n", "x\n" + exp1, exp1 + "a", exp1[:-1], "*", "?", ""])
            exp = ("OK", ["1" if c.ref == exp1 else "0"])
            if c.ref != exp1 and line_infix(c.ref, exp1):
                c.kf = "KF-C04-multiline-literal-match"
    elif ctx in ("condp", "casep"):
        # the word is the PATTERN; quoted => matches only itself
        if spec is None or name in ("dq_star", "star_dq"):
            name, word, spec = SCALAR_T[rng.randrange(0, 11)]
            c = X.Case(ctx, word, ifs=ifs, opts=opts, vars=[("x", v), ("HOME", "/hm")], names=names,
                       cmd_out={CMD: v, CMDNL: v + "\n\n"}, tag=name)
            exp = spec(v, c)
        lit = exp[1][0]
        c.ref = lit if rng.random() < 0.5 else rng.choice([lit + "a", "a" + lit, lit[:-1], "x\n" + lit, lit + "\nx", "a", "", "*", lit.upper()])
        exp = ("OK", ["1" if c.ref == lit else "0"])
        if c.ref != lit and line_infix(lit, c.ref):
            c.kf = "KF-C04-multiline-literal-match"
    elif ctx == "redir":
        if exp is None or exp[0] != "OK" or len(exp[1]) != 1 or not valid_new_filename(exp[1][0], names):
            return scalar_case(rng, v, tname=name, ctx="arg")
    c.expected = exp
    c.value = v
    return c


def array_case(rng, vs, which=None):
    name, word, kind, spec = rng.choice(ARRAY_T) if which is None else which
    ctx = rng.choice(["arg", "arg", "arrelem"])
    ifs = rng.choice(IFSES)
    opts = rng.choice(OPTSETS)
    names = rng.choice(DIRS)
    c = X.Case(ctx, word, ifs=ifs, opts=opts, vars=[("a", list(vs))] if kind in ("a", "both") else [],
               args=list(vs) if kind in ("@", "both") else [], names=names, tag=name)
    c.expected = ("OK", spec(vs))
    c.value = vs
    return c


def all_values(maxlen):
    for n in range(0, maxlen + 1):
        for t in itertools.product(ALPHABET, repeat=n):
            yield "".join(t)


def gen_cases(ctx, scale=1.0):
    rng = ctx.rng
    cases = []
    maxlen = 3 if ctx.quick else 4
    vals = list(all_values(maxlen))
    per_value = 2 if ctx.quick else 1
    for v in vals:
        for _ in range(per_value):
            cases.append(scalar_case(rng, v))
    exhaustive_n = len(cases)
    # every template on every value up to length 2, argument context
    for v in all_values(2):
        for t in SCALAR_T:
            cases.append(scalar_case(rng, v, tname=t[0], ctx="arg"))
    small = list(all_values(2))
    for _ in range(int((2500 if ctx.quick else 20000) * scale)):
        k = rng.choice([0, 1, 1, 2, 2, 3])
        vs = [rng.choice(small) if rng.random() < 0.7 else "".join(rng.choice(ALPHABET) for _ in range(rng.randrange(0, 6)))
              for _ in range(k)]
        cases.append(array_case(rng, vs))
    for _ in range(int((2500 if ctx.quick else 20000) * scale)):
        n = rng.randrange(4, 25)
        v = "".join(rng.choice(ALPHABET + EXTRA) if rng.random() < 0.85 else rng.choice("abz09_/.") for _ in range(n))
        if "/" in v and rng.random() < 0.7:
            v = v.replace("/", "a")
        cases.append(scalar_case(rng, v))
    # tilde prefixes whose target (HOME, PWD, OLDPWD) holds blanks, glob characters, newlines
    for _ in range(int((1500 if ctx.quick else 12000) * scale)):
        cases.append(X.gen_tilde_case(rng, IFSES, OPTSETS, DIRS))
    # long multi-byte values through command substitution: lengths around 4096 / 8192 / 65536 bytes with a
    # multi-byte character straddling those offsets
    cases += long_cmdsub_cases(rng, quick=ctx.quick)
    return cases, exhaustive_n


UNITS = ["€uro-ß-日本-", "é", "日本", "a€", "ß€日𝄞"]


def long_cmdsub_cases(rng, quick=True):
    out = []
    targets = [4096, 8192, 16384, 65536] if quick else [4096, 8192, 16384, 32768, 65536, 131072, 262144]
    for tb in targets:
        for unit in UNITS:
            ub = len(unit.encode("utf-8"))
            for pad in (0, 1, 2):                       # shift the phase so that some character straddles the offset
                k = tb // ub + 3
                v = "a" * pad + unit * k
                tname = rng.choice(["dq_cmd", "dq_cmd", "dq_cmdnl"])
                _n, word, spec = next(t for t in SCALAR_T if t[0] == tname)
                cx = rng.choice(["arg", "assign", "herestr"])
                c = X.Case(cx, word, ifs=rng.choice(IFSES), opts="", vars=[("x", v), ("HOME", "/hm")], names=[],
                           cmd_out={CMD: v, CMDNL: v + "\n\n"}, tag="long_" + tname)
                c.expected = ("OK", [v + "\n"]) if cx == "herestr" else ("OK", [v])
                c.value = v
                c.nomodel = len(v) > 9000          # the model's list functions are quadratic: differential-only beyond
                out.append(c)
    return out


MODEL_CTX = ("arg", "arrelem", "assign", "herestr", "redir")


def evaluate(ctx, cases, use_bash_n=0):
    """runs code (+ model where the context is modelled), returns (mismatches, violations, stats)"""
    subs, problems = X.check_parse_and_resolve(ctx, cases)
    impl = X.impl(ctx, "xp", [c.impl_fields() for c in cases])
    midx = [i for i, c in enumerate(cases) if c.ctx in MODEL_CTX and not getattr(c, "nomodel", False)]
    mfields = [cases[i].model_fields(subs[i]) for i in midx]
    model = ctx.model("xp", mfields)
    mres = dict(zip(midx, model))
    mism, specv = [], []
    stats = {"unsupported_by_glob_reference": 0, "spec_checked": 0, "model_checked": 0, "by_ctx": {}, "by_template": {},
             "by_ifs": {}, "code_err": 0}
    for p in problems:
        mism.append({"kind": "parser-tie", **p})
    code_results = []
    for i, c in enumerate(cases):
        cr = X.decode_result(impl[i])
        code_results.append(cr)
        stats["by_ctx"][c.ctx] = stats["by_ctx"].get(c.ctx, 0) + 1
        stats["by_template"][c.tag] = stats["by_template"].get(c.tag, 0) + 1
        k = repr(c.ifs)
        stats["by_ifs"][k] = stats["by_ifs"].get(k, 0) + 1
        if cr[0] == "ERR":
            stats["code_err"] += 1
        shown = c.value if not isinstance(c.value, str) or len(c.value) < 200 else \
            "%r... (%d chars, %d bytes)" % (c.value[:40], len(c.value), len(c.value.encode("utf-8")))
        desc = {"ctx": c.ctx, "word": c.text, "value": shown, "ifs": c.ifs, "opts": c.opts, "ref": c.ref,
                "vars": [(n, v) for n, v in c.vars if n != "x"] if c.tag == "tilde" else None, "cwdsub": c.cwdsub,
                "dir": c.names if len(c.names) < 8 else "DIRS[0]", "template": c.tag}
        if i in mres:
            mr = X.decode_result(mres[i])
            if mr[0] == "OK" and c.ctx == "herestr":
                mr = ("OK", [mr[1][0] + "\n"])
            if mr[0] == "UNSUPPORTED":
                stats["unsupported_by_glob_reference"] += 1
            elif mr[0] == "BAD":
                raise core.CheckBroken("model produced no result on %r: %r" % (desc, mr))
            else:
                stats["model_checked"] += 1
                if mr != cr:
                    mism.append({"input": desc, "code": cr, "model": mr})
        exp = getattr(c, "expected", None)
        if exp is not None:
            stats["spec_checked"] += 1
            if cr != exp:
                why = "expected %s, code gave %s" % (repr(exp)[:300], repr(cr)[:300])
                if exp[0] == "OK" and cr[0] == "OK" and len(exp[1]) == len(cr[1]) == 1 and len(exp[1][0]) > 200:
                    a, b = exp[1][0], cr[1][0]
                    k = next((i for i in range(min(len(a), len(b))) if a[i] != b[i]), min(len(a), len(b)))
                    why = "first difference at character %d (byte %d): expected %r..., code gave %r... (lengths %d / %d)" % (
                        k, len(a[:k].encode("utf-8")), a[k:k + 8], b[k:k + 8], len(a), len(b))
                v = {"input": desc, "why": why}
                if len(c.text) < 500 and not getattr(c, "nomodel", False):
                    v["impl_fields"] = c.impl_fields()
                if getattr(c, "kf", None):
                    v["known"] = c.kf
                specv.append(v)
    return mism, specv, stats, code_results, mfields, midx, model


def bash_check(cases, code_results, idxs, specv, ctx):
    """unquoted templates: the code must agree with bash (count, order, content) unless a quoted-template
    style expectation exists already"""
    br = X.BashRunner()
    agree = differ = 0
    try:
        sel = [cases[i] for i in idxs]
        res = br.run(sel)
        for i, c, b in zip(idxs, sel, res):
            if b is None or b == ("TIMEOUT",):
                continue
            cr = code_results[i]
            if cr == b:
                agree += 1
            else:
                differ += 1
                kf = classify_bash_diff(c, cr, b)
                v = {"input": {"ctx": c.ctx, "word": c.text, "value": c.value, "ifs": c.ifs, "opts": c.opts,
                               "dir": c.names if len(c.names) < 8 else "DIRS[0]"},
                     "why": "bash gives %r, code gave %r" % (b, cr)}
                if kf:
                    v["known"] = kf
                specv.append(v)
    finally:
        br.close()
    return {"compared": agree + differ, "agree": agree, "differ": differ}


WS = " \t\n"


def classify_bash_diff(c, cr, b):
    """decidable classes of already recorded divergences for the unquoted templates"""
    ifs = " \t\n" if c.ifs is None else c.ifs
    v = c.value if isinstance(c.value, str) else ""
    if any(ch not in WS for ch in ifs) and any(ch in v for ch in ifs if ch not in WS):
        return "KF-C05-nonws-ifs-empty-fields"
    # bash takes an (unterminated) extglob opener for a pattern even with extglob off: failglob / nullglob fire
    if ("F" in c.opts or "n" in c.opts) and "f" not in c.opts and re.search(r"[+@!?*]\(", v) and cr[0] == "OK":
        return "KF-C04-extglob-opener-failglob"
    # bash's glob_pattern_p: any unquoted [ ... ] counts as a pattern (so failglob / nullglob fire) even when it is
    # not a well-formed bracket expression for brush ([] , []x , [!] ...)
    if ("F" in c.opts or "n" in c.opts) and "f" not in c.opts and re.search(r"\[.*\]", v, flags=re.S) \
            and cr[0] == "OK":
        return "KF-C04-bracket-heuristic-failglob"
    return None


def globby(c):
    if c.tag == "tilde":
        return False
    v = c.value if isinstance(c.value, str) else ""
    return "f" not in c.opts and any(ch in v for ch in "*?[\\(")     # "(": bash's extglob-opener heuristics


# ---------------------------------------------------------------- several pattern operands in ONE shell

PAT_T = ["*", "a*", "?", "[ab]", "abc", "*c", "a?c", "x", "a", "*=*", "??"]


def pattern_seq_case(rng):
    """2-4 uses of pattern operands ([[ == ]], case, ${v#p} ${v%p}), quoted and unquoted, over values that
    differ only by quote characters -- within one shell (anything the shell remembers between pattern
    operations is exercised).  Quoted operands must compare literally: python oracle; everything: bash."""
    t = rng.choice(PAT_T)
    vals = {"q": "'" + t + "'", "y": t, "d": '"' + t + '"', "s1": "'abc'", "s2": "abc", "s3": "*=1", "s4": "a", "s5": '"abc"',
            "s6": "'" + t + "'x", "s7": t + "x"}
    pats = ["q", "y", "d"]
    subs = ["s1", "s2", "s3", "s4", "s5", "s6", "s7", "q", "y", "d"]
    ops, exp = [], []
    n = rng.choice([2, 3, 3, 4])
    for k in range(n):
        kind = rng.choice(["cond", "cond", "case", "strip#", "strip%"])
        pv = rng.choice(pats) if k else rng.choice(["q", "q", "d", "y"])      # start with the value that holds quotes
        sv = rng.choice(subs)
        quoted = rng.random() < (0.3 if k == 0 else 0.65)
        P = ('"$%s"' % pv) if quoted else ("$" + pv)
        S, Pv = vals[sv], vals[pv]
        if kind == "cond":
            ops.append('if [[ "$%s" == %s ]]; then zz 1; else zz 0; fi' % (sv, P))
            exp.append(["1" if S == Pv else "0"] if quoted else None)
        elif kind == "case":
            ops.append('case "$%s" in %s) zz 1;; *) zz 0;; esac' % (sv, P))
            exp.append(["1" if S == Pv else "0"] if quoted else None)
        elif kind == "strip#":
            ops.append('zz "${%s#%s}"' % (sv, P))
            exp.append([S[len(Pv):] if S.startswith(Pv) else S] if quoted else None)
        else:
            ops.append('zz "${%s%%%s}"' % (sv, P))
            exp.append([S[:len(S) - len(Pv)] if (S.endswith(Pv) and Pv) else S] if quoted else None)
    c = X.Case("multi", [("T", "x")], ifs=None, opts=rng.choice(["", "", "e"]), vars=sorted(vals.items()), names=[], tag="patseq")
    c.text = "\n".join(ops)
    c.value = t
    c.ops, c.exp = ops, exp
    return c


def split_calls(fields):
    """[ncalls, argc, args..., ...] -> list of arg lists (None if malformed)"""
    try:
        n = int(fields[0]); i = 1; out = []
        for _ in range(n):
            k = int(fields[i]); out.append(fields[i + 1:i + 1 + k]); i += 1 + k
        return out
    except (ValueError, IndexError):
        return None


def pattern_seq_block(ctx, n):
    cases = [pattern_seq_case(ctx.rng) for _ in range(n)]
    impl = X.impl(ctx, "xp", [c.impl_fields() for c in cases])
    br = X.BashRunner()
    try:
        bres = br.run(cases)
    finally:
        br.close()
    specv = []
    stats = {"sequences": n, "operations": sum(len(c.ops) for c in cases), "code_eq_bash": 0, "quoted_operands_checked": 0}
    for c, il, b in zip(cases, impl, bres):
        cr = X.decode_result(il)
        calls = split_calls(cr[1]) if cr[0] == "OK" else None
        desc = {"script": c.text, "vars": dict(c.vars), "opts": c.opts}
        if calls is None or len(calls) != len(c.ops):
            specv.append({"input": desc, "why": "the shell did not complete the %d operations: %r" % (len(c.ops), cr)})
            continue
        for k, (got, e) in enumerate(zip(calls, c.exp)):
            if e is not None:
                stats["quoted_operands_checked"] += 1
                if got != e:
                    specv.append({"input": desc, "why": "operation %d (%s): a quoted operand must compare literally: expected %r, code gave %r"
                                  % (k + 1, c.ops[k], e, got)})
                    break
        else:
            if b is not None and b != ("TIMEOUT",):
                bcalls = split_calls(b[1]) if b[0] == "OK" else None
                if bcalls == calls:
                    stats["code_eq_bash"] += 1
                else:
                    specv.append({"input": desc, "why": "bash gives %r, code gave %r" % (bcalls, calls)})
    return specv, stats


def nontrivial(c):
    v = c.value if isinstance(c.value, str) else "".join(c.value)
    return any(ch not in "aé" for ch in v)


def run(ctx):
    cases, exhaustive_n = gen_cases(ctx)
    mism, specv, stats, code_results, mfields, midx, model = evaluate(ctx, cases)
    # second opinion for the unquoted templates: bash
    unq = [i for i, c in enumerate(cases) if (c.tag.startswith("unq") and c.ctx in ("arg", "arrelem")
                                              and not (c.ifs is not None and any(ch not in WS for ch in c.ifs)))
           or c.tag == "tilde"]
    # pathname MATCHING proper is C08's subject: bash is binding here only where no glob character can
    # play (value without * ? [ \\ and extglob openers, or set -f); the rest is reported as information
    strict = [i for i in unq if not globby(cases[i])]
    loose = [i for i in unq if globby(cases[i])]
    svb = bash_check(cases, code_results, strict, specv, ctx)
    info = []
    svb_loose = bash_check(cases, code_results, loose, info, ctx)
    svb["with_glob_characters_informational"] = {"compared": svb_loose["compared"], "differ": svb_loose["differ"],
                                                 "examples": [v["input"] for v in info[:5]]}
    # pattern operands in sequences within one shell (differential: python literal oracle + bash)
    pv, pstats = pattern_seq_block(ctx, 1500 if ctx.quick else 15000)
    specv += pv
    stats["pattern_sequences"] = pstats
    stats["proof_backed"] = "contexts arg/arrelem/assign/herestr/redir incl. tilde targets and command substitution up to 9000 chars: " \
                            "model + theorems + correspondence"
    stats["differential_only"] = "case/[[ ]] operands, pattern-operand sequences in one shell, command substitution values beyond 9000 " \
                                 "characters (python oracle stating the property literally; bash second opinion)"
    # extraction cross-check
    k = min(40, len(mfields))
    pick = ctx.rng.sample([j for j in range(len(mfields)) if len(mfields[j]) < 400 and sum(map(len, mfields[j])) < 3000], k)
    ce = ctx.coq_eval("xp", [mfields[j] for j in pick])
    bad = [j for j, v in zip(pick, ce) if v != model[j]]
    if bad:
        raise core.CheckBroken("extracted runner and vm_compute disagree on case %r" % (mfields[bad[0]],))
    distinct = {(c.tag, c.ctx, repr(c.value)) for c in cases if nontrivial(c)}
    return {
        "evaluations": len(cases),
        "distinct_nontrivial": len(distinct),
        "rule": "value(s) installed through the API, one shell word per case run by the in-process shell; argv captured by a "
                "registered builtin, assigned values read back, here-string read from stdin, redirection target observed as the "
                "created file, case/[[ ]] as a boolean.  Values: every string over the %d-symbol alphabet up to length %d "
                "(x %d random template/context/IFS/option/directory choices; first %d cases), every template on every value "
                "up to length 2, random arrays/positional lists of 0-3 values, random values up to length 24.  Non-trivial = the "
                "value contains a character other than a letter; distinct by (template, context, value)."
                % (len(ALPHABET), 3 if ctx.quick else 4, 2 if ctx.quick else 1, exhaustive_n),
        "samples": [{"ctx": c.ctx, "word": c.text, "value": c.value, "ifs": c.ifs, "opts": c.opts} for c in
                    (cases[17], cases[exhaustive_n // 2], cases[exhaustive_n + 5])],
        "distribution": stats,
        "extraction_crosscheck": {"cases": k, "agree": k - len(bad)},
        "spec_vs_bash": svb,
        "model_mismatches": mism,
        "spec_violations": specv,
    }


def search(ctx, res):
    import random
    ctx2 = ctx
    saved = ctx.rng
    ctx.rng = random.Random(ctx.seed + 7)
    try:
        cases, _ = gen_cases(ctx, scale=4.0)
        impl = X.impl(ctx, "xp", [c.impl_fields() for c in cases])
        specv = []
        code_results = [X.decode_result(l) for l in impl]
        for c, cr in zip(cases, code_results):
            exp = getattr(c, "expected", None)
            if exp is not None and cr != exp:
                v = {"input": {"ctx": c.ctx, "word": c.text, "value": c.value, "ifs": c.ifs, "opts": c.opts, "ref": c.ref,
                               "dir": c.names if len(c.names) < 8 else "DIRS[0]"},
                     "why": "expected %r, code gave %r" % (exp, cr)}
                if getattr(c, "kf", None):
                    v["known"] = c.kf
                specv.append(v)
        unq = [i for i, c in enumerate(cases) if c.tag.startswith("unq") and c.ctx in ("arg", "arrelem")
               and not (c.ifs is not None and any(ch not in WS for ch in c.ifs))]
        bash_check(cases, code_results, [i for i in unq if not globby(cases[i])], specv, ctx)
        specv.sort(key=lambda v: (1 if v.get("known") else 0, len(repr(v["input"]["value"]))))
        return {"evaluations": len(cases), "spec_violations": specv[:8]}
    finally:
        ctx.rng = saved


def run_code_only(ctx):
    r = search(ctx, {})
    r.update({"distinct_nontrivial": r["evaluations"], "rule": "code vs spec oracle only (model did not build)", "samples": []})
    return r
